"""libFuzzer campaigns for the thorough tier (imported by /verif/run).

Two kinds of target: byte-level targets `t_cNN` (input = directive bytes + raw stream / parser input,
with an in-target checksum fix-up) and the generator-driven target `t_gen` (the input bytes are the
random source of the property's own proptest strategy, so coverage / compare feedback steers the
structured generator; available for every property, selected by VERIF_FUZZ_PROP).

The targets live in harness/fuzz (a cargo-fuzz style crate; `cargo +nightly fuzz build` works
on it too). They are built here with plain `cargo +nightly build --release` and the same
sanitizer-coverage flags cargo-fuzz passes, but with parallel codegen and without ASan (the
crate under test is `#![deny(unsafe_code)]`), which takes ~30 s instead of ~4 min.
"""
import glob
import os
import shutil
import subprocess
import time

# property -> (target, directive prefixes for seeds, seed kind, max_len)
TARGETS = {
    "C01": ("t_c01", [b""], "payload", 2048),
    "C02": ("t_c02", [b"\xff\x00\x05", b"\xff\xff\x20"], "transport", 4096),
    "C04": ("t_c04", [b"\x01", b"\x00"], "sml", 2048),
    "C05": ("t_c05", [b"\x00\xff\x05", b"\x0b\xff\x05"], "transport", 4096),
    "C06": ("t_c06", [b"\x01", b"\x00"], "sml", 2048),
    "C07": ("t_c07", [b"\x00"], "payload", 2048),
    "C09": ("t_c09", [b"\x01", b"\x00"], "sml", 2048),
    "C12": ("t_c12", [b"\x02\x01", b"\x00\x02", b"\x01\x03"], "field", 64),
    "C13": ("t_c13", [b"\x11", b"\x30"], "sml", 2048),
    "C14": ("t_c14", [b"\x00\x80\xff\x00", b"\x05\x40\xff\x00"], "transport", 4096),
    "C15": ("t_c15", [b"\xff\x00"], "transport", 4096),
    "C16": ("t_c16", [b"\x08\x80", b"\x14\xc0"], "payload", 512),
    "C17": ("t_c17", [b"\x00\x80\x00\xff\x00", b"\x07\x40\x03\xff\x00"], "transport", 4096),
}

SANCOV = ("-Cpasses=sancov-module -Cllvm-args=-sanitizer-coverage-level=4 "
          "-Cllvm-args=-sanitizer-coverage-inline-8bit-counters -Cllvm-args=-sanitizer-coverage-pc-table "
          "-Cllvm-args=-sanitizer-coverage-trace-compares --cfg fuzzing -Cdebug-assertions "
          "-A mismatched_lifetime_syntaxes")
TRIPLE = "x86_64-unknown-linux-gnu"


def build(env, harness):
    e = dict(env)
    e["RUSTFLAGS"] = SANCOV
    fz = os.path.join(harness, "fuzz")
    shutil.copyfile(os.path.join(harness, "Cargo.lock"), os.path.join(fz, "Cargo.lock")) if not os.path.exists(os.path.join(fz, "Cargo.lock")) else None
    r = subprocess.run(["cargo", "+nightly", "build", "--release", "--offline", "--target", TRIPLE], cwd=fz, env=e,
                       stdout=subprocess.PIPE, stderr=subprocess.STDOUT, text=True)
    if r.returncode != 0:
        return r.stdout[-4000:]
    return None


def seeds(kind, harness):
    cs = os.path.join(harness, "corpus-seed")
    out = []
    if kind == "sml":
        for f in sorted(glob.glob(os.path.join(cs, "sml", "*.bin")))[::4]:
            out.append(open(f, "rb").read())
    elif kind == "transport":
        for f in sorted(glob.glob(os.path.join(cs, "transport", "*.bin"))):
            b = open(f, "rb").read()
            out.append(b[:1500])
        out.append(bytes.fromhex("1b1b1b1b0101010112345678" "1b1b1b1b1a00b87b"))
        out.append(bytes.fromhex("1b1b1b1b01010101" "1b1b1b1b1b1b1b1b" "0000" "0000" "1b1b1b1b1a020000"))
    elif kind == "payload":
        for f in sorted(glob.glob(os.path.join(cs, "sml", "*.bin")))[::16]:
            out.append(open(f, "rb").read()[:96])
        out += [b"", b"\x1b" * 5, b"\x00" * 6, bytes.fromhex("1b1b1b1b01010101"), bytes.fromhex("121b1b1b1b1a000102")]
    elif kind == "field":
        out += [bytes.fromhex("0648656c6c6f"), bytes.fromhex("8302"), bytes.fromhex("f10d"), bytes.fromhex("5900000000000000ff"), bytes.fromhex("818080808080808f")]
    return out


def campaign(pid, seed, env, verif, harness, work, replays, binary):
    """Runs the byte-level target of the property (if it has one) and then the generator-driven target
    `t_gen` (every property), and merges the results."""
    err = build(env, harness)
    if err:
        return {"target": "t_gen", "error": "fuzz build failed", "build_output_tail": err}
    plans = []
    if pid in TARGETS:
        target, prefixes, kind, max_len = TARGETS[pid]
        plans.append((target, prefixes, kind, max_len, False))
    plans.append(("t_gen", [b""], "gen", 4096, True))
    results = [_campaign_one(pid, seed + 7 * k, env, verif, harness, work, replays, binary, plan) for k, plan in enumerate(plans)]
    merged = {
        "targets": [{k: v for k, v in r.items() if k != "violation_lines"} for r in results],
        "target": "+".join(r["target"] for r in results),
        "execs": sum(r.get("execs", 0) for r in results),
        "new_coverage_units": sum(r.get("new_coverage_units", 0) for r in results),
        "confirmed_violations": sum(r.get("confirmed_violations", 0) for r in results),
        "unconfirmed_artifacts": sum((r.get("unconfirmed_artifacts", []) for r in results), []),
        "wall_s": round(sum(r.get("wall_s", 0) for r in results), 1),
        "violation_lines": sum((r.get("violation_lines", []) for r in results), []),
    }
    return merged


def _campaign_one(pid, seed, env, verif, harness, work, replays, binary, plan):
    target, prefixes, kind, max_len, is_gen = plan
    t0 = time.time()
    exe = os.path.join(harness, "fuzz", "target", TRIPLE, "release", target)
    jobs = int(os.environ.get("VERIF_FUZZ_JOBS", "16"))
    runs = int(os.environ.get("VERIF_FUZZ_RUNS", "1000000"))
    if is_gen:
        runs = int(os.environ.get("VERIF_FUZZ_GEN_RUNS", str(max(1, runs // 10))))
    base = os.path.join(work, "fuzz-" + pid + "-" + target)
    shutil.rmtree(base, ignore_errors=True)
    os.makedirs(os.path.join(base, "artifacts"))
    sd = seeds(kind, harness)
    procs = []
    e = dict(env)
    e["VERIF_REPLAY_DIR"] = replays
    e["VERIF_KNOWN"] = os.path.join(verif, "known_findings.txt")
    e["VERIF_FUZZ_PROP"] = pid
    for j in range(jobs):
        cdir = os.path.join(base, "c%02d" % j)
        os.makedirs(cdir)
        # half of the jobs start from the seed corpus, the others from (almost) nothing
        if is_gen:
            # the generator-driven target starts from short random-source strings (all zero = the
            # smallest case; a few pseudo-random ones of increasing length)
            import random
            rnd = random.Random(seed * 100 + j)
            for k, n in enumerate([0, 8, 64, 256, 1024]):
                with open(os.path.join(cdir, "seed-%d" % k), "wb") as fh:
                    fh.write(bytes(rnd.getrandbits(8) for _ in range(n)))
        elif j % 2 == 0:
            for k, s in enumerate(sd):
                for pi, p in enumerate(prefixes):
                    with open(os.path.join(cdir, "seed-%03d-%d" % (k, pi)), "wb") as fh:
                        fh.write(p + s)
        else:
            with open(os.path.join(cdir, "seed-empty"), "wb") as fh:
                fh.write(prefixes[0])
        log = open(os.path.join(base, "log%02d.txt" % j), "w")
        cmd = [exe, cdir, "-runs=%d" % runs, "-seed=%d" % (seed * 1000 + j + 1), "-len_control=0", "-max_len=%d" % max_len,
               "-print_final_stats=1", "-timeout=60", "-rss_limit_mb=4096", "-artifact_prefix=" + os.path.join(base, "artifacts") + "/"]
        if j % 4 >= 2:
            # compare feedback (value profile) on half of the jobs: lets the fuzzer home in on magic constants
            cmd.append("-use_value_profile=1")
        procs.append((j, subprocess.Popen(cmd, cwd=base, env=e, stdout=log, stderr=subprocess.STDOUT), log))
    deadline = time.time() + float(os.environ.get("VERIF_FUZZ_TIMEOUT", "1500"))
    execs = 0
    new_units = 0
    crashed_jobs = 0
    timed_out = 0
    for j, p, log in procs:
        try:
            p.wait(timeout=max(1, deadline - time.time()))
        except subprocess.TimeoutExpired:
            p.kill()
            p.wait()
            timed_out += 1
        log.close()
    violation_paths = []
    for j, p, _ in procs:
        txt = open(os.path.join(base, "log%02d.txt" % j), errors="replace").read()
        done = False
        for line in txt.splitlines():
            if line.startswith("stat::number_of_executed_units:"):
                execs += int(line.split()[-1])
                done = True
            elif line.startswith("stat::new_units_added:"):
                new_units += int(line.split()[-1])
            elif line.startswith("FUZZ-VIOLATION"):
                path = line.split("replay=", 1)[1].strip()
                if path not in violation_paths:
                    violation_paths.append(path)
        if not done:
            # crashed before printing the final stats: take the last progress line
            for line in reversed(txt.splitlines()):
                if line.startswith("#") and "\t" in line:
                    try:
                        execs += int(line[1:].split("\t")[0])
                    except ValueError:
                        pass
                    break
        if p.returncode not in (0, None):
            crashed_jobs += 1
    # artifacts without a FUZZ-VIOLATION line (aborts inside the library, libFuzzer oom / timeout)
    unconfirmed = []
    unconverted = []
    for a in sorted(glob.glob(os.path.join(base, "artifacts", "*"))):
        name = os.path.basename(a)
        if name.startswith(("crash-", "oom-", "timeout-")):
            out = os.path.join(replays, "%s-fuzz-%s.case" % (pid, name.replace("crash-", "c").replace("oom-", "o").replace("timeout-", "t")[:20]))
            try:
                r = subprocess.run([binary("checked"), "fuzz-to-replay", pid, a, out] + (["gen"] if is_gen else []),
                                   stdout=subprocess.PIPE, stderr=subprocess.STDOUT, text=True, timeout=300)
            except subprocess.TimeoutExpired:
                # the artifact does not even decode to a case within five minutes: nothing to judge
                unconverted.append(a)
                continue
            if r.returncode == 0 and out not in violation_paths:
                violation_paths.append(out)
    lines = []
    confirmed = 0
    seen_bodies = set()
    for path in violation_paths[:8]:
        if not os.path.exists(path):
            continue
        body = "".join(l for l in open(path, errors="replace") if not l.startswith("#"))
        if body in seen_bodies:
            continue
        seen_bodies.add(body)
        is_violation = False
        detail = []
        for profile in ("checked", "wrap"):
            r = subprocess.run([binary(profile), pid, "--profile", profile, "--replay", path, "--replay-dir", replays,
                                "--known", os.path.join(verif, "known_findings.txt")], cwd=verif, env=env,
                               stdout=subprocess.PIPE, stderr=subprocess.PIPE, text=True)
            if r.returncode == 1 or r.returncode == 86 or r.returncode < 0:
                is_violation = True
                detail += [l for l in r.stdout.splitlines() if l.startswith("  ")][:4]
                if r.returncode != 1:
                    detail.append("  profile=%s: the process was killed by a signal while evaluating this case" % profile)
        if is_violation:
            confirmed += 1
            if confirmed == 1:
                lines.append("VIOLATION property=%s replay=%s" % (pid, path))
                lines.append("  found by libFuzzer target %s, confirmed by replay outside the fuzzer" % target)
                lines += detail
        else:
            unconfirmed.append(path)
    corpus_files = sum(len(os.listdir(os.path.join(base, "c%02d" % j))) for j in range(jobs))
    shutil.rmtree(base, ignore_errors=True)
    return {
        "target": target,
        "jobs": jobs,
        "runs_per_job": runs,
        "execs": execs,
        "new_coverage_units": new_units,
        "final_corpus_files": corpus_files,
        "seed_files": len(sd) * len(prefixes),
        "jobs_ended_abnormally": crashed_jobs,
        "jobs_timed_out": timed_out,
        "confirmed_violations": confirmed,
        "unconfirmed_artifacts": unconfirmed,
        "artifacts_not_decodable_in_time": len(unconverted),
        "wall_s": round(time.time() - t0, 1),
        "violation_lines": lines,
    }
