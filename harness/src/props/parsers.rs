//! Shared drivers for the two parsers.

use crate::refmodel::conv::{revent_of, rfile_of};
use crate::refmodel::sml::{REvent, RFile, RStart};
use sml_rs::parser::complete;
use sml_rs::parser::streaming::Parser;
use sml_rs::parser::{ParseError, TlfParseError};

/// Result of driving the streaming parser: events up to the first error / None, the raw item
/// trace (true = Ok item, false = Err item) and what happened on further calls.
#[derive(Debug, Clone)]
pub struct StreamRun {
    pub events: Vec<REvent>,
    pub err: Option<ParseError>,
    /// number of items (Ok or Err) before the first None, capped
    pub items: usize,
    pub errs: usize,
    /// the iteration did not return None within the step cap
    pub cap_exceeded: bool,
    /// index (1-based) and description of the first further call after Err/None that returned Some
    pub resumed: Option<(usize, String)>,
}

/// Drives the streaming parser with a deterministic step cap (|x| + 2 calls), records events
/// until the first error, then calls `next()` `extra` more times after the first Err or None.
pub fn run_streaming(x: &[u8], extra: usize) -> StreamRun {
    let mut p = Parser::new(x);
    let cap = x.len() + 2;
    let mut run = StreamRun { events: Vec::new(), err: None, items: 0, errs: 0, cap_exceeded: false, resumed: None };
    let mut calls = 0;
    let mut finished = false; // saw Err or None
    loop {
        calls += 1;
        if calls > cap {
            run.cap_exceeded = true;
            return run;
        }
        match p.next() {
            None => {
                finished = true;
                break;
            }
            Some(Ok(ev)) => {
                run.items += 1;
                run.events.push(revent_of(&ev));
            }
            Some(Err(e)) => {
                run.items += 1;
                run.errs += 1;
                run.err = Some(e);
                break;
            }
        }
    }
    let _ = finished;
    for k in 0..extra {
        match p.next() {
            None => {}
            Some(Ok(ev)) => {
                run.resumed = Some((k + 1, format!("Ok({:?})", ev)));
                break;
            }
            Some(Err(e)) => {
                run.resumed = Some((k + 1, format!("Err({:?})", e)));
                break;
            }
        }
    }
    run
}

pub fn run_complete(x: &[u8]) -> Result<RFile, ParseError> {
    complete::parse(x).map(|f| rfile_of(&f))
}

/// Error kind for the agreement check: the `&'static str` inside `TlfMismatch` is a diagnostic
/// type name that legitimately differs between the two parsers and is ignored.
#[derive(Debug, Clone, PartialEq, Eq)]
pub enum ErrKind {
    LeftoverInput,
    UnexpectedEOF,
    InvalidTlf(TlfParseError),
    TlfMismatch,
    CrcMismatch,
    MsgEndMismatch,
    UnexpectedVariant,
}

pub fn kind_of(e: &ParseError) -> ErrKind {
    match e {
        ParseError::LeftoverInput => ErrKind::LeftoverInput,
        ParseError::UnexpectedEOF => ErrKind::UnexpectedEOF,
        ParseError::InvalidTlf(t) => ErrKind::InvalidTlf(t.clone()),
        ParseError::TlfMismatch(_) => ErrKind::TlfMismatch,
        ParseError::CrcMismatch => ErrKind::CrcMismatch,
        ParseError::MsgEndMismatch => ErrKind::MsgEndMismatch,
        ParseError::UnexpectedVariant => ErrKind::UnexpectedVariant,
    }
}

pub fn kind_label(e: &ParseError) -> &'static str {
    match e {
        ParseError::LeftoverInput => "LeftoverInput",
        ParseError::UnexpectedEOF => "UnexpectedEOF",
        ParseError::InvalidTlf(_) => "InvalidTlf",
        ParseError::TlfMismatch(_) => "TlfMismatch",
        ParseError::CrcMismatch => "CrcMismatch",
        ParseError::MsgEndMismatch => "MsgEndMismatch",
        ParseError::UnexpectedVariant => "UnexpectedVariant",
    }
}

/// Shape invariant on an event stream (C09): after a get-list start announcing n, never more
/// than n entries, an end event only after exactly n, and no message start before the end.
/// `complete` = the stream ended without error (then every list must also be closed).
pub fn shape_violation(events: &[REvent], complete: bool) -> Option<String> {
    let mut pending: Option<(u64, u64)> = None; // (announced, seen)
    for (i, e) in events.iter().enumerate() {
        match e {
            REvent::MsgStart { body, .. } => {
                if let Some((n, seen)) = pending {
                    return Some(format!("event #{i}: message start while a list of {n} values has only produced {seen} and no end event"));
                }
                if let RStart::GetList { num_vals, .. } = body {
                    pending = Some((*num_vals as u64, 0));
                }
            }
            REvent::Entry(_) => match &mut pending {
                None => return Some(format!("event #{i}: value event outside of a list response")),
                Some((n, seen)) => {
                    *seen += 1;
                    if *seen > *n {
                        return Some(format!("event #{i}: value event number {} although {} values were announced", seen, n));
                    }
                }
            },
            REvent::ListEnd(_) => match pending {
                None => return Some(format!("event #{i}: list end event outside of a list response")),
                Some((n, seen)) => {
                    if seen != n {
                        return Some(format!("event #{i}: list end after {seen} of {n} announced values"));
                    }
                    pending = None;
                }
            },
        }
    }
    if complete {
        if let Some((n, seen)) = pending {
            return Some(format!("iteration ended without error although a list of {n} values produced only {seen} and no end event"));
        }
    }
    None
}

pub fn show_events(ev: &[REvent]) -> String {
    let v: Vec<String> = ev
        .iter()
        .take(8)
        .map(|e| match e {
            REvent::MsgStart { body, .. } => match body {
                RStart::Open(_) => "Start(Open)".to_string(),
                RStart::Close { .. } => "Start(Close)".to_string(),
                RStart::GetList { num_vals, .. } => format!("Start(GetList n={})", num_vals),
            },
            REvent::Entry(e) => format!("Entry({:?})", e.value),
            REvent::ListEnd(_) => "ListEnd".to_string(),
        })
        .collect();
    format!("[{}]{}", v.join(", "), if ev.len() > 8 { format!(" ..(+{})", ev.len() - 8) } else { String::new() })
}
