import sys, glob
tag, wt, site = sys.argv[1], sys.argv[2], sys.argv[3]
extra = open(sys.argv[4]).read() if len(sys.argv) > 4 else ''
props = "\n\n".join(open(f).read().strip() for f in sorted(glob.glob('/tmp/prop_C*.txt')))
print(f"""You are helping to evaluate a verification tool for a Rust library by producing a *behaviour-changing but harmless* change: a change that a maintainer could plausibly merge, that alters HOW the library works internally and, if possible, also something a caller can observe - while every one of the 18 semantic properties listed below STILL HOLDS afterwards. The verification tool is supposed to stay silent on such a change; we want to find out whether it raises a false alarm.

Work ONLY inside the git worktree {wt} - a checkout of `sml-rs`, a no_std Rust library implementing the SML (Smart Message Language) transport v1 encoder/decoder and a TLF-based parser used by German power meters. Do NOT read or write anything under /verif or /repo, and do not look for other verification material on this machine: your work must be independent. There is no network; always pass `--offline` to cargo. Start by reading README.md and the sources under src/.

The 18 properties that must all remain true (read them carefully - they are precise about what is promised and, by omission, about what is NOT promised):

{props}

Your task: make ONE realistic change to the library sources (under src/ only; do not touch tests, snapshots or examples; no new cfg flags, features or dependencies; do not change any public signature) such that
 (a) the crate compiles, with default features and with `--features nb,embedded-hal-02`,
 (b) the existing test-suite still passes completely: `cargo test --workspace --no-fail-fast --offline` and `cargo test --offline --features nb,embedded-hal-02 --lib`,
 (c) ALL 18 properties above still hold for every input / history / fault placement they quantify over - argue this carefully, property by property where the change could matter; if you are not sure, choose a different change,
 (d) the change is NOT a no-op: it restructures real logic (not just renames or comments) and, preferably, changes some behaviour that the properties leave open. Examples of what the properties leave open (verify against the texts yourself): WHICH error variant a rejected transport frame or a rejected parser input gets, as long as it is an error (but note where a property demands that two implementations agree on the kind - then change both consistently); the order in which independent validity checks are made; internal representation, state-machine layout, counters' types when they cannot overflow; how and when a growable buffer grows or how much it reserves (within the stated memory bound); text of `Display` / `Debug` output of types other than `ArrayBuf`; the diagnostic strings carried inside errors; how many bytes at a time are requested from an `io::Read` source as long as no byte beyond what is needed is consumed; splitting / merging helper functions; replacing loops by iterator chains or vice versa; computing the CRC with a different (correct) algorithm or table; behaviour outside a property's stated precondition.

Concentrate on this part of the code base: {site}

{extra}

Deliverables, all left UNCOMMITTED in the worktree:
 1. the modified file(s) under src/,
 2. optionally `tests/demo_benign.rs`: a test using only the public API that PASSES with your change and FAILS without it (i.e. shows that the change is observable), if the change is observable at all. To run something WITHOUT your change do NOT use `git stash` (it is shared between worktrees and gets mixed up with other people's work); use `git diff -- src > /tmp/<your-worktree-name>.patch && git apply -R /tmp/<your-worktree-name>.patch`, run, then `git apply /tmp/<your-worktree-name>.patch`,
 3. a file BENIGN.md in the worktree root stating: what you changed (file/lines), what observable behaviour (if any) differs, and for each property that the change could conceivably touch, why it still holds; plus the commands you ran with their outcome.

Keep the change moderate (a handful to a few dozen lines). When you are done, reply with a short summary.""")
