//! Conversion of reference (abstract) values into the crate's public types, so that the
//! comparison is the crate's own derived `PartialEq` (all fields are `pub`).

use super::sml::*;
use sml_rs::parser::common::{CloseResponse, ListEntry, ListType, OpenResponse, Status, Time, Value};
use sml_rs::parser::complete::{File, GetListResponse, Message, MessageBody};
use sml_rs::parser::streaming::{
    GetListResponseEnd, GetListResponseStart, MessageBody as SBody, MessageStart, ParseEvent,
};

fn o(x: &Option<Vec<u8>>) -> Option<&[u8]> {
    x.as_deref()
}
fn t(x: &Option<u32>) -> Option<Time> {
    x.map(Time::SecIndex)
}

pub fn value(v: &RValue) -> Value<'_> {
    match v {
        RValue::Bool(b) => Value::Bool(*b),
        RValue::Bytes(b) => Value::Bytes(b),
        RValue::Int(1, x) => Value::I8(*x as i8),
        RValue::Int(2, x) => Value::I16(*x as i16),
        RValue::Int(4, x) => Value::I32(*x as i32),
        RValue::Int(_, x) => Value::I64(*x),
        RValue::Uint(1, x) => Value::U8(*x as u8),
        RValue::Uint(2, x) => Value::U16(*x as u16),
        RValue::Uint(4, x) => Value::U32(*x as u32),
        RValue::Uint(_, x) => Value::U64(*x),
        RValue::ListTime(s) => Value::List(ListType::Time(Time::SecIndex(*s))),
    }
}

pub fn status(s: &Option<(u8, u64)>) -> Option<Status> {
    s.map(|(c, v)| match c {
        1 => Status::Status8(v as u8),
        2 => Status::Status16(v as u16),
        4 => Status::Status32(v as u32),
        _ => Status::Status64(v),
    })
}

pub fn entry(e: &REntry) -> ListEntry<'_> {
    ListEntry {
        obj_name: &e.obj_name,
        status: status(&e.status),
        val_time: t(&e.val_time),
        unit: e.unit,
        scaler: e.scaler,
        value: value(&e.value),
        value_signature: o(&e.sig),
    }
}

pub fn open(x: &ROpen) -> OpenResponse<'_> {
    OpenResponse {
        codepage: o(&x.codepage),
        client_id: o(&x.client_id),
        req_file_id: &x.req_file_id,
        server_id: &x.server_id,
        ref_time: t(&x.ref_time),
        sml_version: x.sml_version,
    }
}

pub fn file(f: &RFile) -> File<'_> {
    File {
        messages: f
            .msgs
            .iter()
            .map(|m| Message {
                transaction_id: &m.transaction_id,
                group_no: m.group_no,
                abort_on_error: m.abort_on_error,
                message_body: match &m.body {
                    RBody::Open(x) => MessageBody::OpenResponse(open(x)),
                    RBody::Close { sig } => MessageBody::CloseResponse(CloseResponse { global_signature: o(sig) }),
                    RBody::GetList { head, entries, tail } => MessageBody::GetListResponse(GetListResponse {
                        client_id: o(&head.client_id),
                        server_id: &head.server_id,
                        list_name: o(&head.list_name),
                        act_sensor_time: t(&head.act_sensor_time),
                        val_list: entries.iter().map(entry).collect(),
                        list_signature: o(&tail.list_sig),
                        act_gateway_time: t(&tail.act_gateway_time),
                    }),
                },
            })
            .collect(),
    }
}

/// Does a crate streaming event equal a reference event?
pub fn event_eq(c: &ParseEvent<'_>, r: &REvent) -> bool {
    match (c, r) {
        (ParseEvent::MessageStart(ms), REvent::MsgStart { transaction_id, group_no, abort_on_error, body }) => {
            let exp = MessageStart {
                transaction_id,
                group_no: *group_no,
                abort_on_error: *abort_on_error,
                message_body: match body {
                    RStart::Open(x) => SBody::OpenResponse(open(x)),
                    RStart::Close { sig } => SBody::CloseResponse(CloseResponse { global_signature: o(sig) }),
                    RStart::GetList { head, num_vals } => SBody::GetListResponse(GetListResponseStart {
                        client_id: o(&head.client_id),
                        server_id: &head.server_id,
                        list_name: o(&head.list_name),
                        act_sensor_time: t(&head.act_sensor_time),
                        num_vals: *num_vals,
                    }),
                },
            };
            *ms == exp
        }
        (ParseEvent::ListEntry(le), REvent::Entry(e)) => *le == entry(e),
        (ParseEvent::GetListResponseEnd(end), REvent::ListEnd(tail)) => {
            *end == GetListResponseEnd {
                list_signature: o(&tail.list_sig),
                act_gateway_time: t(&tail.act_gateway_time),
            }
        }
        _ => false,
    }
}

// ---------------------------------------------------------------------------------------
// owned mirror of crate values (to compare the two parsers with each other)
// ---------------------------------------------------------------------------------------

fn ov(x: Option<&[u8]>) -> Option<Vec<u8>> {
    x.map(|s| s.to_vec())
}
fn ot(x: &Option<Time>) -> Option<u32> {
    x.as_ref().map(|Time::SecIndex(s)| *s)
}

pub fn rvalue_of(v: &Value<'_>) -> RValue {
    match v {
        Value::Bool(b) => RValue::Bool(*b),
        Value::Bytes(b) => RValue::Bytes(b.to_vec()),
        Value::I8(x) => RValue::Int(1, *x as i64),
        Value::I16(x) => RValue::Int(2, *x as i64),
        Value::I32(x) => RValue::Int(4, *x as i64),
        Value::I64(x) => RValue::Int(8, *x),
        Value::U8(x) => RValue::Uint(1, *x as u64),
        Value::U16(x) => RValue::Uint(2, *x as u64),
        Value::U32(x) => RValue::Uint(4, *x as u64),
        Value::U64(x) => RValue::Uint(8, *x),
        Value::List(ListType::Time(Time::SecIndex(s))) => RValue::ListTime(*s),
    }
}

pub fn rentry_of(e: &ListEntry<'_>) -> REntry {
    REntry {
        obj_name: e.obj_name.to_vec(),
        status: e.status.as_ref().map(|s| match s {
            Status::Status8(v) => (1, *v as u64),
            Status::Status16(v) => (2, *v as u64),
            Status::Status32(v) => (4, *v as u64),
            Status::Status64(v) => (8, *v),
        }),
        val_time: ot(&e.val_time),
        unit: e.unit,
        scaler: e.scaler,
        value: rvalue_of(&e.value),
        sig: ov(e.value_signature),
    }
}

pub fn ropen_of(x: &OpenResponse<'_>) -> ROpen {
    ROpen {
        codepage: ov(x.codepage),
        client_id: ov(x.client_id),
        req_file_id: x.req_file_id.to_vec(),
        server_id: x.server_id.to_vec(),
        ref_time: ot(&x.ref_time),
        sml_version: x.sml_version,
    }
}

pub fn rfile_of(f: &File<'_>) -> RFile {
    RFile {
        msgs: f
            .messages
            .iter()
            .map(|m| RMsg {
                transaction_id: m.transaction_id.to_vec(),
                group_no: m.group_no,
                abort_on_error: m.abort_on_error,
                body: match &m.message_body {
                    MessageBody::OpenResponse(x) => RBody::Open(ropen_of(x)),
                    MessageBody::CloseResponse(x) => RBody::Close { sig: ov(x.global_signature) },
                    MessageBody::GetListResponse(g) => RBody::GetList {
                        head: RGetListHead {
                            client_id: ov(g.client_id),
                            server_id: g.server_id.to_vec(),
                            list_name: ov(g.list_name),
                            act_sensor_time: ot(&g.act_sensor_time),
                        },
                        entries: g.val_list.iter().map(rentry_of).collect(),
                        tail: RGetListTail {
                            list_sig: ov(g.list_signature),
                            act_gateway_time: ot(&g.act_gateway_time),
                        },
                    },
                },
            })
            .collect(),
    }
}

pub fn revent_of(e: &ParseEvent<'_>) -> REvent {
    match e {
        ParseEvent::MessageStart(ms) => REvent::MsgStart {
            transaction_id: ms.transaction_id.to_vec(),
            group_no: ms.group_no,
            abort_on_error: ms.abort_on_error,
            body: match &ms.message_body {
                SBody::OpenResponse(x) => RStart::Open(ropen_of(x)),
                SBody::CloseResponse(x) => RStart::Close { sig: ov(x.global_signature) },
                SBody::GetListResponse(g) => RStart::GetList {
                    head: RGetListHead {
                        client_id: ov(g.client_id),
                        server_id: g.server_id.to_vec(),
                        list_name: ov(g.list_name),
                        act_sensor_time: ot(&g.act_sensor_time),
                    },
                    num_vals: g.num_vals,
                },
            },
        },
        ParseEvent::ListEntry(le) => REvent::Entry(rentry_of(le)),
        ParseEvent::GetListResponseEnd(end) => REvent::ListEnd(RGetListTail {
            list_sig: ov(end.list_signature),
            act_gateway_time: ot(&end.act_gateway_time),
        }),
    }
}
