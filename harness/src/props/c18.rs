//! C18 - ArrayBuf behaves as a capacity-bounded byte vector (model-based / stateful).

use crate::drive::{BufKind, VecK};
use crate::engine::caps::pick;
use crate::engine::{Fail, Obs, Prop, Tier};
use crate::util::{hex_rle, hex_short, unhex_rle, Kv};
use crate::{ensure, with_cap};
use proptest::collection::vec;
use proptest::prelude::*;
use sml_rs::util::{Buffer, OutOfMemory};
use std::fmt::Debug;

pub struct C18;

pub const NS: [usize; 13] = [0, 1, 2, 3, 4, 5, 7, 8, 16, 33, 64, 255, 256];

#[derive(Debug, Clone, PartialEq)]
pub enum Op {
    Push(u8),
    Extend(Vec<u8>),
    Truncate(usize),
    Clear,
    /// replace the buffer by one collected from an iterator over these bytes (at most N); the second
    /// field selects the iterator adaptor (see `flavoured`), which may yield fewer bytes than it was given
    FromIter(Vec<u8>, u8),
}

/// An iterator with a caller-chosen (legal) size hint.
struct Hinted<I> {
    inner: I,
    hint: (usize, Option<usize>),
}

impl<I: Iterator<Item = u8>> Iterator for Hinted<I> {
    type Item = u8;
    fn next(&mut self) -> Option<u8> {
        self.inner.next()
    }
    fn size_hint(&self) -> (usize, Option<usize>) {
        self.hint
    }
}

/// An iterator that is not fused: after its first `None` it yields bytes again. A consumer must stop at the first `None`.
struct Resuming<I> {
    inner: I,
    ended: bool,
}

impl<I: Iterator<Item = u8>> Iterator for Resuming<I> {
    type Item = u8;
    fn next(&mut self) -> Option<u8> {
        if self.ended {
            return Some(0xee);
        }
        let r = self.inner.next();
        if r.is_none() {
            self.ended = true;
        }
        r
    }
}

pub const FLAVOURS: u8 = 13;

/// Iterators of at most `s.len()` bytes with different kinds of `size_hint`: exact, unknown, an upper
/// bound that is not reached, a lower bound of zero, a huge upper bound. Every one is a legal `Iterator`.
fn flavoured<'a>(s: &'a [u8], flavour: u8) -> Box<dyn Iterator<Item = u8> + 'a> {
    let h = s.len() / 2;
    match flavour % FLAVOURS {
        0 => Box::new(s.iter().copied()),
        1 => Box::new(s.to_vec().into_iter()),
        2 => {
            let mut i = 0;
            Box::new(std::iter::from_fn(move || {
                let r = s.get(i).copied();
                i += 1;
                r
            }))
        }
        3 => Box::new(s.iter().copied().filter(|b| b & 1 == 0)),
        4 => Box::new(s.iter().copied().take_while(|b| *b < 0xc0)),
        5 => Box::new(s.iter().copied().skip_while(|b| *b < 0x40)),
        6 => Box::new(s[..h].iter().copied().chain(s[h..].iter().copied())),
        7 => Box::new(Hinted { inner: s.iter().copied(), hint: (0, Some(usize::MAX)) }),
        8 => Box::new(Hinted { inner: s.iter().copied(), hint: (0, Some(s.len())) }),
        9 => Box::new(s.iter().flat_map(|b| if b & 3 == 0 { None } else { Some(*b) })),
        10 => Box::new(s.iter().map_while(|b| if *b >= 0xe0 { None } else { Some(*b) })),
        11 => Box::new(Resuming { inner: s.iter().copied(), ended: false }),
        _ => Box::new(s.iter().copied().step_by(2)),
    }
}

fn flavour_name(f: u8) -> &'static str {
    ["slice", "vec", "from_fn", "filter", "take_while", "skip_while", "chain", "hint(0,MAX)", "hint(0,len)", "flat_map", "map_while", "not-fused", "step_by"][(f % FLAVOURS) as usize]
}

#[derive(Debug, Clone)]
pub enum OpTok {
    Push(u8),
    /// length relative to the capacity: 0..=N+3
    Extend(u16, u64),
    Truncate(u16, bool),
    Clear,
    FromIter(u16, u64, u8),
}

#[derive(Debug, Clone)]
pub struct Case {
    pub n: u16,
    pub ops: Vec<OpTok>,
    pub vec_backed: bool,
}

#[derive(Debug, Clone)]
pub struct Input {
    /// capacity; usize::MAX = the Vec-backed Buffer impl
    pub n: usize,
    pub ops: Vec<Op>,
}

fn show_ops(ops: &[Op]) -> String {
    ops.iter()
        .map(|o| match o {
            Op::Push(b) => format!("push({:02x})", b),
            Op::Extend(s) => format!("extend_from_slice({})", hex_short(s, 20)),
            Op::Truncate(k) => format!("truncate({})", k),
            Op::Clear => "clear()".into(),
            Op::FromIter(s, f) => format!("from_iter({} over {})", flavour_name(*f), hex_short(s, 20)),
        })
        .collect::<Vec<_>>()
        .join(", ")
}

fn run<B: Buffer + Debug + PartialEq + FromIterator<u8>>(cap: usize, ops: &[Op], obs: &mut Obs) -> Result<(), Fail> {
    let mut buf: B = Default::default();
    let mut model: Vec<u8> = Vec::new();
    let mut failed_ops = 0;
    let mut shrink_then_push = false;
    let mut shrunk = false;
    let mut inexact_hint = false;
    let name = if cap == usize::MAX { "Vec<u8>".to_string() } else { format!("ArrayBuf<{}>", cap) };
    for (idx, op) in ops.iter().enumerate() {
        let before = model.clone();
        let (got, want): (Result<(), OutOfMemory>, Result<(), OutOfMemory>) = match op {
            Op::Push(b) => {
                let want = if model.len() < cap {
                    model.push(*b);
                    if shrunk {
                        shrink_then_push = true;
                    }
                    Ok(())
                } else {
                    Err(OutOfMemory)
                };
                (buf.push(*b), want)
            }
            Op::Extend(s) => {
                let want = if s.len() <= cap.saturating_sub(model.len()) && model.len() <= cap {
                    model.extend_from_slice(s);
                    if shrunk && !s.is_empty() {
                        shrink_then_push = true;
                    }
                    Ok(())
                } else {
                    Err(OutOfMemory)
                };
                (buf.extend_from_slice(s), want)
            }
            Op::Truncate(k) => {
                if *k < model.len() {
                    shrunk = true;
                }
                model.truncate(*k);
                buf.truncate(*k);
                (Ok(()), Ok(()))
            }
            Op::Clear => {
                if !model.is_empty() {
                    shrunk = true;
                }
                model.clear();
                buf.clear();
                (Ok(()), Ok(()))
            }
            Op::FromIter(s, f) => {
                // the model is what the very same iterator yields into a std Vec
                model = flavoured(s, *f).collect();
                let (lo, hi) = flavoured(s, *f).size_hint();
                if hi != Some(model.len()) || lo != model.len() {
                    inexact_hint = true;
                }
                buf = flavoured(s, *f).collect();
                (Ok(()), Ok(()))
            }
        };
        let ctx = || format!("{} after [{}] (op #{})", name, show_ops(&ops[..=idx]), idx);
        ensure!(got == want, "wrong-result", "{}: returned {:?}, an ideal vector limited to {} elements returns {:?}", ctx(), got, cap, want);
        if want.is_err() {
            failed_ops += 1;
            ensure!(&*buf == before.as_slice(), "failing-op-changed-contents", "{}: the failing operation changed the contents from {} to {}", ctx(), hex_short(&before, 40), hex_short(&buf, 40));
        }
        ensure!(&*buf == model.as_slice(), "wrong-contents", "{}: contents are {} (len {}), model has {} (len {})", ctx(), hex_short(&buf, 40), buf.len(), hex_short(&model, 40), model.len());
        // Debug output depends only on the visible contents
        ensure!(model.len() > 4096 || format!("{:?}", buf) == format!("{:?}", model.as_slice()), "wrong-debug", "{}: Debug output {:?} differs from the slice's {:?}", ctx(), buf, model.as_slice());
        ensure!(model.len() > 4096 || format!("{:x?}", buf) == format!("{:x?}", model.as_slice()), "wrong-debug", "{}: {{:x?}} output differs from the slice's", ctx());
        // ... also with the alternate (pretty) flag, upper-case hex and a width, as `{:#?}` on an enclosing value would use
        if model.len() <= 64 {
            ensure!(format!("{:#?}", buf) == format!("{:#?}", model.as_slice()), "wrong-debug", "{}: {{:#?}} output {:#?} differs from the slice's {:#?}", ctx(), buf, model.as_slice());
            ensure!(format!("{:#x?}", buf) == format!("{:#x?}", model.as_slice()), "wrong-debug", "{}: {{:#x?}} output differs from the slice's", ctx());
            ensure!(format!("{:02X?}", buf) == format!("{:02X?}", model.as_slice()), "wrong-debug", "{}: {{:02X?}} output differs from the slice's", ctx());
        }
        // equality depends only on the visible contents: compare with a buffer reached by a different history
        let other: B = model.iter().copied().collect();
        ensure!(buf == other && other == buf, "equality-depends-on-history", "{}: not equal to a buffer collected from the same contents {}", ctx(), hex_short(&model, 40));
        if model.len() < cap {
            // same contents, but with a stale byte beyond the logical length
            let mut stale: B = model.iter().copied().collect();
            let _ = stale.push(model.last().copied().unwrap_or(0x5a) ^ 0xff);
            stale.truncate(model.len());
            ensure!(buf == stale, "equality-depends-on-history", "{}: not equal to a buffer with the same contents and a stale byte beyond its length", ctx());
        }
        if !model.is_empty() {
            let mut shorter: B = model.iter().copied().collect();
            shorter.truncate(model.len() - 1);
            ensure!(buf != shorter, "unequal-contents-compare-equal", "{}: equal to a buffer that is one element shorter", ctx());
            let mut changed: Vec<u8> = model.clone();
            let l = changed.len();
            changed[l - 1] ^= 1;
            let changed: B = changed.into_iter().collect();
            ensure!(buf != changed, "unequal-contents-compare-equal", "{}: equal to a buffer whose last element differs", ctx());
            // ... and one that differs in exactly one other position (first, middle, or chosen by the step number)
            for pos in [0, l / 2, idx % l] {
                let mut other: Vec<u8> = model.clone();
                other[pos] ^= 0x80;
                let other: B = other.into_iter().collect();
                ensure!(buf != other && other != buf, "unequal-contents-compare-equal", "{}: equal to a buffer that differs only in element {}", ctx(), pos);
            }
        }
    }
    obs.count("ops", ops.len() as u64);
    obs.count("failing-ops", failed_ops);
    if failed_ops > 0 {
        obs.class("has-failing-op");
    }
    if shrink_then_push {
        obs.class("shrink-then-grow");
    }
    if inexact_hint {
        obs.class("from_iter:inexact-size-hint");
    }
    obs.nontrivial_if(failed_ops > 0 && shrink_then_push);
    Ok(())
}

fn run_arr<K: BufKind>(cap: usize, ops: &[Op], obs: &mut Obs) -> Result<(), Fail>
where
    K::B: Debug + PartialEq + FromIterator<u8>,
{
    run::<K::B>(cap, ops, obs)
}

pub fn eval_input(i: &Input, obs: &mut Obs) -> Result<(), Fail> {
    if i.n == usize::MAX {
        obs.class("buffer:vec");
        run_arr::<VecK>(usize::MAX, &i.ops, obs)
    } else {
        obs.class(format!("N:{}", i.n));
        with_cap!(i.n, K => run_arr::<K>(i.n, &i.ops, obs))
    }
}

fn bytes_from(seed: u64, len: usize) -> Vec<u8> {
    let mut v = Vec::with_capacity(len);
    crate::gen::payload::fill(0, seed, len, &mut v);
    v
}

fn exh_ops() -> Vec<Op> {
    vec![Op::Push(0xaa), Op::Push(0xbb), Op::Extend(vec![]), Op::Extend(vec![0xaa]), Op::Extend(vec![0xbb, 0xaa]), Op::Extend(vec![0xaa, 0xbb, 0xaa, 0xbb]), Op::Truncate(0), Op::Truncate(1), Op::Truncate(2), Op::Truncate(usize::MAX), Op::Clear]
}

impl Prop for C18 {
    const ID: &'static str = "C18";
    const RULE: &'static str = "stateful / model-based: N in {0,1,2,3,4,5,7,8,16,33,64,255,256}, rarely 65535 / 65536 / 65537 (and the Vec-backed Buffer impl with an unbounded model, which now and then is extended by 65 536 .. 300 000 bytes at once) x operation histories of length 0..40 over {push(b), extend_from_slice(s) with |s| in 0..=N+3, truncate(k) with k in 0..=N+3 or usize::MAX, clear, from_iter of <= N bytes through 13 iterator kinds (slice, Vec, from_fn, filter, take_while, skip_while, chain, flat_map, map_while, step_by, two with a loose but legal size_hint, and one that is not fused, i.e. yields bytes again after its first None) - the model is what the same iterator yields into a std Vec}; model = Vec<u8> with a capacity check. After every step: same Ok/Err(OutOfMemory), same contents, failing op leaves contents unchanged, Debug ({:?}, {:x?}, {:#?}, {:#x?}, {:02X?}) equal the slice's, equality with a buffer reached by a different history (incl. one with a stale byte beyond its length), inequality with a shorter buffer and with buffers that differ in exactly one element (last, first, middle, one more). Non-trivial: the history contains a failing operation and a truncate/clear that shrank the buffer followed by a growing operation. Distinct = distinct (N, history).";
    type Case = Case;
    type Input = Input;

    fn budget(tier: Tier) -> u64 {
        tier.pick(800_000, 6_000_000)
    }

    fn strategy(_tier: Tier) -> BoxedStrategy<Case> {
        let op = prop_oneof![
            5 => any::<u8>().prop_map(OpTok::Push),
            4 => (any::<u16>(), any::<u64>()).prop_map(|(l, s)| OpTok::Extend(l, s)),
            3 => (any::<u16>(), prop::bool::weighted(0.1)).prop_map(|(k, max)| OpTok::Truncate(k, max)),
            1 => Just(OpTok::Clear),
            2 => (any::<u16>(), any::<u64>(), 0u8..FLAVOURS).prop_map(|(l, s, f)| OpTok::FromIter(l, s, f)),
        ];
        (any::<u16>(), vec(op, 0..40), prop::bool::weighted(0.1)).prop_map(|(n, ops, vec_backed)| Case { n, ops, vec_backed }).boxed()
    }

    fn lower(c: &Case) -> Input {
        // capacities around 2^16 once in ~200 cases (a length field narrower than usize shows there)
        let n = if c.vec_backed { usize::MAX } else if c.n < 330 { [65_535usize, 65_536, 65_537][c.n as usize % 3] } else { NS[pick(c.n, NS.len())] };
        let base = if n == usize::MAX { 40 } else { n };
        let ops = c
            .ops
            .iter()
            .map(|o| match o {
                OpTok::Push(b) => Op::Push(*b),
                // the growable buffer once in a while gets a slice beyond 2^16 / 2^18 / 2^20 bytes (capacity thresholds)
                OpTok::Extend(l, s) if n == usize::MAX && *l >= 65_300 => Op::Extend(vec![(*s & 0xff) as u8; [65_536usize, 262_143, 262_144, 262_145, 300_000][(*s >> 8) as usize % 5]]),
                OpTok::Extend(l, s) => Op::Extend(bytes_from(*s, pick(*l, base + 4))),
                OpTok::Truncate(_, true) => Op::Truncate(usize::MAX),
                OpTok::Truncate(k, false) => Op::Truncate(pick(*k, base + 4)),
                OpTok::Clear => Op::Clear,
                OpTok::FromIter(l, s, f) => Op::FromIter(bytes_from(*s, pick(*l, base + 1)), *f),
            })
            .collect();
        Input { n, ops }
    }

    fn eval(i: &Input, obs: &mut Obs) -> Result<(), Fail> {
        eval_input(i, obs)
    }

    fn to_kv(i: &Input) -> Kv {
        let mut kv = Kv::new();
        kv.put("n", if i.n == usize::MAX { "vec".to_string() } else { i.n.to_string() });
        for op in &i.ops {
            match op {
                Op::Push(b) => kv.put("op", format!("push:{:02x}", b)),
                Op::Extend(s) => kv.put("op", format!("extend:{}", hex_rle(s))),
                Op::Truncate(k) => kv.put("op", format!("truncate:{}", k)),
                Op::Clear => kv.put("op", "clear"),
                Op::FromIter(s, f) => kv.put("op", format!("fromiter@{}:{}", f, hex_rle(s))),
            };
        }
        kv
    }

    fn from_kv(kv: &Kv) -> Result<Input, String> {
        let n = match kv.get("n")? {
            "vec" => usize::MAX,
            s => s.parse::<usize>().map_err(|e| e.to_string())?,
        };
        if n != usize::MAX && !crate::engine::caps::CAPS.contains(&n) {
            return Err(format!("capacity {n} not in dispatch set"));
        }
        let mut ops = Vec::new();
        for o in kv.all("op") {
            let (k, v) = o.split_once(':').unwrap_or((o, ""));
            let (k, flavour) = match k.split_once('@') {
                Some((k, f)) => (k, f.parse::<u8>().map_err(|e| e.to_string())?),
                None => (k, 0),
            };
            ops.push(match k {
                "push" => Op::Push(u8::from_str_radix(v, 16).map_err(|e| e.to_string())?),
                "extend" => Op::Extend(unhex_rle(v)?),
                "truncate" => Op::Truncate(v.parse().map_err(|e: std::num::ParseIntError| e.to_string())?),
                "clear" => Op::Clear,
                "fromiter" => {
                    let b = unhex_rle(v)?;
                    if b.len() > n {
                        return Err("from_iter beyond the capacity is a documented panic, not part of the property".into());
                    }
                    Op::FromIter(b, flavour)
                }
                _ => return Err(format!("bad op {o}")),
            });
        }
        Ok(Input { n, ops })
    }

    fn exhaustive_desc(tier: Tier) -> String {
        let l = tier.pick(4, 5);
        format!("for N in 0..=3: every history of length 0..={} over 11 operations (push aa/bb, extend_from_slice of 0/1/2/4 bytes, truncate 0/1/2/usize::MAX, clear): {} histories", l, 4 * (0..=l).map(|k| 11u64.pow(k as u32)).sum::<u64>())
    }

    fn exhaustive(tier: Tier, shard: usize, nshards: usize, f: &mut dyn FnMut(&Input) -> bool) {
        let maxl = tier.pick(4, 5);
        let alpha = exh_ops();
        let mut g = 0u64;
        for n in 0..=3usize {
            for l in 0..=maxl {
                let count = 11u64.pow(l as u32);
                for k in 0..count {
                    if g % nshards as u64 == shard as u64 {
                        let mut idx = k;
                        let mut ops = Vec::with_capacity(l);
                        for _ in 0..l {
                            ops.push(alpha[(idx % 11) as usize].clone());
                            idx /= 11;
                        }
                        if !f(&Input { n, ops }) {
                            return;
                        }
                    }
                    g += 1;
                }
            }
        }
    }
}
