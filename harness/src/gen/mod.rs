//! Shared generators (proptest strategies).
pub mod faults;
pub mod payload;
pub mod stream;
