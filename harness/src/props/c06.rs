//! C06 - parsers are total and use input-proportional resources on any bytes.

use crate::engine::alloc::measure;
use crate::engine::{Fail, Obs, Prop, Tier};
use crate::ensure;
use crate::gen::mutate::{lying_value, magnitude, PMut};
use crate::gen::pinput::*;
use crate::gen::smlfile::cfile_typical;
use crate::refmodel::sml::*;
use crate::util::{hex_short, Kv};
use proptest::prelude::*;
use sml_rs::parser::streaming::Parser;

pub struct C06;

/// Bound on the heap the allocating parser may request: a constant multiple of the input
/// length. An honest parse needs ~35 B per input byte; pre-sizing by min(declared, remaining
/// input) needs ~90 B per byte and passes; anything sized by a declared length of three or
/// more nibbles exceeds it by orders of magnitude.
pub fn heap_bound(len: usize) -> usize {
    256 * len + 4096
}

pub fn eval_bytes(x: &[u8], how: &str, obs: &mut Obs) -> Result<(), Fail> {
    // allocating parser: must return; heap bounded by the input length
    let (res, rep) = measure(|| sml_rs::parser::complete::parse(x).map(|f| f.messages.len()));
    let bound = heap_bound(x.len());
    ensure!(
        rep.peak_live <= bound && rep.largest <= bound,
        "heap-not-bounded-by-input-length",
        "complete::parse on {} input bytes requested a single allocation of {} bytes (peak live {} bytes, {} allocation calls); bound is 256*|x|+4096 = {}\nresult = {:?}\ninput ({}) = {}",
        x.len(),
        rep.largest,
        rep.peak_live,
        rep.calls,
        bound,
        res,
        how,
        hex_short(x, 200)
    );
    // streaming parser: must terminate within the step cap and allocate nothing
    let (items, rep2) = measure(|| {
        let mut p = Parser::new(x);
        let mut n = 0usize;
        let cap = x.len() + 2;
        while n < cap {
            match p.next() {
                None => return Ok(n),
                Some(Ok(_)) => {}
                Some(Err(_)) => {
                    // C06 only needs the iteration to end; "None after an error" is C13's statement.
                    // Stop here so that a C13 defect does not mask the resource measurement.
                    return Ok(n + 1);
                }
            }
            n += 1;
        }
        Err(n)
    });
    ensure!(items.is_ok(), "streaming-does-not-terminate", "the streaming parser yielded more than {} items for {} input bytes without an error or None\ninput ({}) = {}", x.len() + 1, x.len(), how, hex_short(x, 200));
    ensure!(rep2.calls == 0, "streaming-parser-allocates", "the streaming parser performed {} heap allocations (largest {} bytes)\ninput ({}) = {}", rep2.calls, rep2.largest, how, hex_short(x, 200));
    // the same iterator handed to a std consumer (`collect`), which sizes its allocation from the parser's
    // size_hint(): the memory must again be proportional to the input, not to a declared length. The
    // wrapper forwards size_hint() untouched and only bounds the number of items (termination was
    // established above).
    struct Capped<I> {
        inner: I,
        left: usize,
    }
    impl<I: Iterator> Iterator for Capped<I> {
        type Item = I::Item;
        fn next(&mut self) -> Option<I::Item> {
            if self.left == 0 {
                return None;
            }
            self.left -= 1;
            self.inner.next()
        }
        fn size_hint(&self) -> (usize, Option<usize>) {
            self.inner.size_hint()
        }
    }
    let item = std::mem::size_of::<Result<sml_rs::parser::streaming::ParseEvent<'static>, sml_rs::parser::ParseError>>();
    let collect_bound = 4 * item * (x.len() + 2) + 4096;
    let (n_collected, rep3) = measure(|| Capped { inner: Parser::new(x), left: x.len() + 2 }.collect::<Vec<_>>().len());
    ensure!(
        rep3.peak_live <= collect_bound && rep3.largest <= collect_bound,
        "collecting-streaming-events-allocates-by-declared-length",
        "Parser::new(x).collect::<Vec<_>>() on {} input bytes ({} events of {} bytes each) requested a single allocation of {} bytes (peak live {} bytes); bound is 4*{}*(|x|+2)+4096 = {}\ninput ({}) = {}",
        x.len(),
        n_collected,
        item,
        rep3.largest,
        rep3.peak_live,
        item,
        collect_bound,
        how,
        hex_short(x, 200)
    );
    // classification
    let r = read_events(x, false);
    if let Some((declared, ty)) = r.overlong {
        let pos = match ty {
            TY_LIST => "list",
            TY_OCTET => "octet",
            TY_INT | TY_UINT => "integer",
            _ => "bool",
        };
        obs.class(format!("overlong:{}:{}", pos, magnitude(declared)));
    }
    if matches!(r.reject.as_ref().map(|j| j.kind), Some(RejectKind::TlfOverflow)) {
        obs.class("overlong:>=2^32");
    }
    obs.count("alloc-calls-complete", rep.calls);
    obs.class(if res.is_ok() { "complete:ok" } else { "complete:err" });
    obs.nontrivial_if(r.overlong.is_some() || matches!(r.reject.as_ref().map(|j| j.kind), Some(RejectKind::TlfOverflow)) || how.starts_with("mutated") || how.starts_with("dump[") || how.starts_with("tree"));
    Ok(())
}

const FIXED_LONG: usize = 6;

/// Long inputs whose honest parse needs many steps of the same kind: stack use must not grow with their number.
fn fixed_long(k: usize) -> (Vec<u8>, String) {
    use crate::refmodel::sml::{write, CBody, CEntry, CFile, CMsg, COctet, CUint, CValue};
    let msg = |n: usize, body: CBody| CMsg {
        list_extra: 0,
        transaction_id: COctet::plain(&[(n >> 8) as u8, n as u8]),
        group_no: CUint::w(0, 1),
        abort_on_error: CUint::w(0, 1),
        body_list_extra: 0,
        tag_width: 2,
        tag_extra: 0,
        body,
        crc_short: false,
        crc_extra: 0,
    };
    let entry = |n: usize| CEntry { list_extra: 0, obj_name: COctet::plain(&[n as u8]), status: None, val_time: None, unit: None, scaler: None, value: CValue::Uint(CUint::w((n % 251) as u64, 1)), sig: None };
    let getlist = |n: usize| CBody::GetList { list_extra: 0, client_id: None, server_id: COctet::plain(&[1, 2, 3]), list_name: None, act_sensor_time: None, vals_extra: 0, entries: (0..n).map(entry).collect(), list_sig: None, act_gateway_time: None };
    match k {
        0 => (write(&CFile { msgs: (0..60_000).map(|n| msg(n, CBody::Close { list_extra: 0, sig: None })).collect() }).bytes, "fixed-long: 60 000 close responses".into()),
        1 => (write(&CFile { msgs: vec![msg(1, getlist(60_000))] }).bytes, "fixed-long: one list response with 60 000 entries".into()),
        2 => (write(&CFile { msgs: (0..2_000).map(|n| msg(n, getlist(30))).collect() }).bytes, "fixed-long: 2 000 list responses of 30 entries".into()),
        3 => (write(&CFile { msgs: vec![msg(1, CBody::Close { list_extra: 0, sig: Some(COctet::plain(&vec![0x5a; 500_000])) })] }).bytes, "fixed-long: octet string of 500 000 bytes".into()),
        4 => (vec![0x71; 200_000], "fixed-long: 200 000 nested one-element list headers".into()),
        _ => (vec![0x80; 200_000], "fixed-long: 200 000 continuation bytes".into()),
    }
}

/// Both parsers once more on a thread with the stack std gives every spawned thread (the workers of this
/// harness have 256 MiB, which would hide one stack frame per message / entry / byte). A stack overflow is
/// an abort (crash guard); the allocation bounds are measured separately on the worker thread.
fn ordinary_stack_probe(x: &[u8], how: &str, obs: &mut Obs) -> Result<(), Fail> {
    obs.class("ordinary-stack-probe");
    let r = crate::engine::guard::on_ordinary_stack(|| {
        let a = sml_rs::parser::complete::parse(x).map(|f| f.messages.len()).ok();
        let mut p = Parser::new(x);
        let mut n = 0usize;
        while n < x.len() + 2 {
            match p.next() {
                None | Some(Err(_)) => break,
                Some(Ok(_)) => n += 1,
            }
        }
        let c = Parser::new(x).take(x.len() + 2).count();
        (a, n, c)
    });
    match r {
        Ok((a, _n, _c)) => {
            // whether the file is accepted is C03's / C04's statement, not this one's
            obs.class(if a.is_some() { "ordinary-stack-probe:accepted" } else { "ordinary-stack-probe:rejected" });
            let _ = how;
            Ok(())
        }
        Err(pi) if pi.in_harness() => Err(Fail::new("harness-panic", format!("HARNESS BUG: {}", pi.describe()))),
        Err(pi) => Err(Fail::new(format!("panic@{}:{}", pi.file.rsplit('/').next().unwrap_or(""), pi.line), format!("library code panicked (2 MiB stack probe, input: {}): {}", how, pi.describe()))),
    }
}

impl Prop for C06 {
    const ID: &'static str = "C06";
    const RULE: &'static str = "G5 with emphasis on lying TLFs: a valid three-message file (or a real meter payload) in which one TLF - at every grammar position: message list, transaction id, body list, value list, entry list, octet strings, integers - is replaced by one declaring 0..20, 2^8+-1, 2^16+-1, 2^24+-1, 2^31+-1, 2^32-3..2^32-1 or >= 2^32 (9..12 nibbles), with / without checksum fix-up; plus general G5 mutations, truncations and random bytes. Oracle: both parsers return (panic capture, crash guard: an allocation request above 1 GiB is refused exactly as a small machine would); the tracking allocator armed around complete::parse sees peak live bytes and largest single request <= 256*|x| + 4096; armed around the whole streaming iteration it sees zero allocation calls; armed around Parser::new(x).collect::<Vec<_>>() (std sizes that vector from the parser's size_hint) it sees at most 4*sizeof(event)*(|x|+2)+4096 bytes; the streaming iteration ends within |x|+2 calls. Non-trivial: the input contains a TLF declaring more than the remaining input (or more than 32 bits), or is a mutated valid file. Distinct = distinct byte strings.";
    type Case = PCase;
    type Input = PInput;

    fn budget(tier: Tier) -> u64 {
        tier.pick(150_000, 4_000_000)
    }

    fn strategy(tier: Tier) -> BoxedStrategy<PCase> {
        let lying = (cfile_typical(), any::<u16>(), lying_value(), any::<bool>()).prop_map(|(file, i, (v, n), fix)| PCase::Mutated { file, muts: vec![PMut::LyingTlf(i, v, n)], fix });
        let lying_dump = (any::<u16>(), any::<u16>(), lying_value(), any::<bool>()).prop_map(|(idx, i, (v, n), fix)| PCase::Dump { idx, muts: vec![PMut::LyingTlf(i, v, n)], fix });
        prop_oneof![4 => lying, 2 => lying_dump, 4 => pcase(tier == Tier::Thorough, (1, 8, 2, 1))].boxed()
    }

    fn lower(c: &PCase) -> PInput {
        lower(c)
    }

    fn eval(i: &PInput, obs: &mut Obs) -> Result<(), Fail> {
        obs.class(i.origin_class());
        if i.bytes.len() >= 16_384 {
            ordinary_stack_probe(&i.bytes, &i.how, obs)?;
        }
        eval_bytes(&i.bytes, &i.how, obs)
    }

    fn exhaustive_desc(_tier: Tier) -> String {
        format!("{} fixed long inputs (60 000 small messages; one list response with 60 000 minimal entries; 2 000 list responses of 30 entries; one octet string of 500 000 bytes; 200 000 nested one-element list headers; 200 000 continuation bytes) through both parsers on a 2 MiB stack, then under the allocation bounds", FIXED_LONG)
    }

    fn exhaustive(_tier: Tier, shard: usize, nshards: usize, f: &mut dyn FnMut(&PInput) -> bool) {
        for k in 0..FIXED_LONG {
            if k % nshards != shard {
                continue;
            }
            let (bytes, how) = fixed_long(k);
            if !f(&PInput { bytes, how }) {
                return;
            }
        }
    }

    fn to_kv(i: &PInput) -> Kv {
        i.to_kv()
    }

    fn from_kv(kv: &Kv) -> Result<PInput, String> {
        PInput::from_kv(kv)
    }
}
