//! C05 - the transport layer is total: no panic, abort or hang on any byte stream / call order.

use crate::drive::{self, BufKind, Ev, Poll, VecK};
use crate::engine::caps::{pick, CAPS};
use crate::engine::{Fail, Obs, Prop, Tier};
use crate::gen::payload::{moderate_payload, SizedPayload};
use crate::gen::stream::*;
use crate::refmodel::transport::ref_frame;
use crate::util::{hex_rle, hex_short, unhex_rle, Kv};
use crate::{ensure, with_cap};
use proptest::collection::vec;
use proptest::prelude::*;
use sml_rs::transport::{encode, encode_streaming, DecodeErr, Decoder};

pub struct C05;

#[derive(Debug, Clone)]
pub enum OpTok {
    Push(Vec<STok>),
    /// one valid frame whose payload is `len` equal bytes - beyond 2^18, past every capacity threshold a
    /// growable buffer might treat specially
    PushHuge(usize, u8),
    Finalize,
    Reset,
}

#[derive(Debug, Clone, PartialEq)]
pub enum Op {
    Push(Vec<u8>),
    Finalize,
    Reset,
}

#[derive(Debug, Clone)]
pub struct Case {
    pub ops: Vec<OpTok>,
    pub cap: Option<u16>,
    pub m: SizedPayload,
    pub enc_cap: u16,
    pub alloc_fail: Option<u32>,
}

#[derive(Debug, Clone)]
pub struct Input {
    pub ops: Vec<Op>,
    pub cap: Option<usize>,
    /// payload of the frame that must still decode after the history
    pub m: Vec<u8>,
    pub enc_cap: usize,
    /// growable buffer only: make the n-th heap allocation inside push_byte / encode fail
    pub alloc_fail: Option<u32>,
}

fn enc_arr<K: BufKind>(p: &[u8]) -> bool {
    encode::<K::B>(p).is_ok()
}

fn history<K: BufKind>(i: &Input, obs: &mut Obs) -> Result<(), Fail> {
    history_with::<K>(i, obs, true)?;
    Ok(())
}

/// `finalize_first`: call finalize() before the usability probe. Without it the probe is only made when the very
/// last byte of the history was answered with InvalidMessage / InvalidEsc / OutOfMemory - "every failure is reported
/// as an error value, after which the same object remains usable": the transmission is over, the next one must decode.
fn history_with<K: BufKind>(i: &Input, obs: &mut Obs, finalize_first: bool) -> Result<bool, Fail> {
    let who = format!("Decoder<{}<{}>>", K::NAME, K::CAP);
    let mut dec = Decoder::<K::B>::new();
    let mut n_err = 0u64;
    let mut state_at_call = Vec::new();
    let mut ended_on_failure = false;
    for op in &i.ops {
        ended_on_failure = false;
        match op {
            Op::Push(bytes) => {
                for &b in bytes {
                    ended_on_failure = false;
                    match dec.push_byte(b) {
                        Ok(None) => {}
                        Ok(Some(_)) => {
                            if finalize_first {
                                obs.count("ok-events", 1)
                            }
                        }
                        Err(e) => {
                            ended_on_failure = !matches!(e, DecodeErr::DiscardedBytes(_));
                            if !finalize_first {
                                continue;
                            }
                            n_err += 1;
                            obs.class(format!("error:{}", match e {
                                DecodeErr::DiscardedBytes(_) => "DiscardedBytes",
                                DecodeErr::InvalidEsc(_) => "InvalidEsc",
                                DecodeErr::OutOfMemory => "OutOfMemory",
                                DecodeErr::InvalidMessage { .. } => "InvalidMessage",
                            }));
                        }
                    }
                }
            }
            Op::Finalize => {
                let r = dec.finalize();
                state_at_call.push(if r.is_some() { "finalize:pending" } else { "finalize:idle" });
            }
            Op::Reset => {
                let r = dec.reset();
                state_at_call.push(if r > 0 { "reset:pending" } else { "reset:idle" });
            }
        }
    }
    if finalize_first {
        for s in state_at_call {
            obs.class(s);
        }
    } else if !ended_on_failure {
        return Ok(false);
    } else {
        obs.class("usability:directly-after-an-error-value");
    }
    // usability: the same object must still decode a valid frame
    if finalize_first {
        dec.finalize();
    }
    if i.m.len() <= K::CAP {
        let f = ref_frame(&i.m);
        let mut evs = Vec::new();
        // in half of the cases one stray byte arrives first (the tail of whatever was cut off): it must be
        // reported as one discarded byte and must not stand in the way of the frame
        let stray = i.m.len() % 2 == 1;
        let mut probe = Vec::with_capacity(f.len() + 1);
        if stray {
            probe.push(0xa5);
        }
        probe.extend_from_slice(&f);
        drive::push_all(&mut dec, &probe, 0, &mut evs);
        let want = if stray { vec![(9, Ev::Err(DecodeErr::DiscardedBytes(1))), (probe.len(), Ev::Msg(i.m.clone()))] } else { vec![(f.len(), Ev::Msg(i.m.clone()))] };
        ensure!(
            evs == want,
            "object-unusable-after-history",
            "{who}: after the call history [{}]{}, pushing {}the frame of payload {} yields {}; expected {}",
            show_ops(&i.ops),
            if finalize_first { " and finalize()" } else { " (whose last byte was answered with an error value; no finalize() / reset())" },
            if stray { "one stray byte and " } else { "" },
            hex_short(&i.m, 40),
            drive::show_pos(&evs),
            drive::show_pos(&want)
        );
        ensure!(dec.finalize().is_none(), "object-unusable-after-history", "{who}: finalize() after the final frame reports leftover");
    }
    if finalize_first {
        obs.count("error-events", n_err);
        if ended_on_failure {
            // once more from the start, this time without finalize() in front of the probe
            history_with::<K>(i, obs, false)?;
        }
    }
    Ok(ended_on_failure)
}

pub fn show_ops(ops: &[Op]) -> String {
    ops.iter()
        .map(|o| match o {
            Op::Push(b) => format!("push({})", hex_short(b, 40)),
            Op::Finalize => "finalize()".into(),
            Op::Reset => "reset()".into(),
        })
        .collect::<Vec<_>>()
        .join(", ")
}

/// Injected allocation failure on the growable buffer: the failure must surface as
/// `Err(OutOfMemory)` (decoder) / `Err(OutOfMemory)` (encoder), never as a panic or abort, and the
/// decoder must remain usable. The measured closures contain library calls only.
fn alloc_failure_part(i: &Input, n: u32, obs: &mut Obs) -> Result<(), Fail> {
    let mut dec = Decoder::<Vec<u8>>::new();
    let mut stream: Vec<u8> = Vec::new();
    for op in &i.ops {
        if let Op::Push(b) = op {
            stream.extend_from_slice(b);
        }
    }
    stream.extend_from_slice(&ref_frame(&[0x5a; 40]));
    // (pre-sized: the measured closure must not allocate on its own account)
    let mut got: Vec<(usize, Option<usize>)> = Vec::with_capacity(stream.len() + 1);
    let (ooms, fired) = crate::engine::alloc::with_alloc_failure(n, || {
        let mut ooms = 0u32;
        for (k, &b) in stream.iter().enumerate() {
            match dec.push_byte(b) {
                Err(DecodeErr::OutOfMemory) => ooms += 1,
                Ok(Some(m)) => got.push((k, Some(m.len()))),
                Err(_) => got.push((k, None)),
                Ok(None) => {}
            }
        }
        ooms
    });
    if fired {
        obs.class("alloc-failure:injected-into-decoder");
        if ooms == 0 {
            // the library may recover from a refused allocation (e.g. retry with a smaller request); then nothing
            // failed from the caller's point of view and the results must be those of an undisturbed run
            let mut clean = Decoder::<Vec<u8>>::new();
            let mut want: Vec<(usize, Option<usize>)> = Vec::new();
            for (k, &b) in stream.iter().enumerate() {
                match clean.push_byte(b) {
                    Ok(Some(m)) => want.push((k, Some(m.len()))),
                    Err(_) => want.push((k, None)),
                    Ok(None) => {}
                }
            }
            obs.class("alloc-failure:recovered-by-the-library");
            ensure!(got == want, "allocation-failure-not-reported", "the {}-th heap allocation inside Decoder<Vec<u8>>::push_byte failed; no push returned Err(OutOfMemory) and the results differ from an undisturbed run: {:?} vs {:?}; stream = {}", n, got, want, hex_short(&stream, 80));
        }
    } else {
        ensure!(ooms == 0, "spurious-out-of-memory", "Decoder<Vec<u8>> reported OutOfMemory {} times although no allocation failed", ooms);
    }
    dec.finalize();
    let f = ref_frame(&i.m);
    let mut evs = Vec::new();
    drive::push_all(&mut dec, &f, 0, &mut evs);
    ensure!(evs == vec![(f.len(), Ev::Msg(i.m.clone()))], "object-unusable-after-allocation-failure", "after an injected allocation failure the decoder yields {} for a valid frame", drive::show_pos(&evs));
    // encoder
    let big: Vec<u8> = i.m.iter().cycle().take(i.m.len().max(1) * 8 + 50).copied().collect();
    let (r, fired) = crate::engine::alloc::with_alloc_failure(n % 4, || encode::<Vec<u8>>(&big).map(|v| v.len()));
    if fired {
        obs.class("alloc-failure:injected-into-encoder");
        // an error value, or (the library recovered) the complete frame
        let full = ref_frame(&big).len();
        ensure!(r.is_err() || r == Ok(full), "allocation-failure-not-reported", "an allocation inside encode::<Vec<u8>> failed but it returned {:?} (the frame has {} bytes)", r, full);
    } else {
        ensure!(r.is_ok(), "spurious-out-of-memory", "encode::<Vec<u8>> failed although no allocation failed");
    }
    Ok(())
}

pub fn eval_input(i: &Input, obs: &mut Obs) -> Result<(), Fail> {
    if let (Some(n), None) = (i.alloc_fail, i.cap) {
        alloc_failure_part(i, n, obs)?;
    }
    // (ii) call histories on the push decoder
    match i.cap {
        None => history::<VecK>(i, obs)?,
        Some(n) => with_cap!(n, K => history::<K>(i, obs))?,
    }
    // (i) + (iv) stream-level front-ends with step caps, incl. calls after the end of input
    let mut stream = Vec::new();
    for op in &i.ops {
        if let Op::Push(b) = op {
            stream.extend_from_slice(b);
        }
    }
    let _ = drive::decode_fn(&stream);
    let cap_fail = |m: String| Fail::new("does-not-terminate", format!("{m}; stream = {}", hex_short(&stream, 120)));
    // (iv-b) the reader front-ends over a source that fails: one hard error and one would-block at positions
    // derived from the stream (the second directly at a transmission boundary in half of the cases), through
    // read / next / read_nb / next_nb over io::Read and over the embedded-hal source. "Every failure is reported
    // as an error value": each scripted hard error must come back as exactly one I/O error, each would-block
    // as exactly one would-block - never as a payload, as end of input, or not at all.
    if stream.len() < 4096 {
        use crate::drive::{Ev, Step};
        let n = stream.len();
        let h = crate::util::fnv64(&stream) as usize;
        let p_other = if h % 2 == 0 { 0 } else { (h >> 8) % (n + 1) };
        let p_wb = (h >> 24) % (n + 1);
        let mut script: Vec<Step> = Vec::with_capacity(n + 2);
        for (k, b) in stream.iter().enumerate() {
            if k == p_wb {
                script.push(Step::WouldBlock);
            }
            if k == p_other {
                script.push(Step::Other((h >> 40) as u8 % 6));
            }
            script.push(Step::Byte(*b));
        }
        if p_wb == n {
            script.push(Step::WouldBlock);
        }
        if p_other == n {
            script.push(Step::Other((h >> 40) as u8 % 6));
        }
        for api in 0u8..5 {
            let fe = crate::props::c11::Fe { api, poll_next: (h >> (48 + api)) & 1 == 1, cap: None };
            let evs = crate::props::c11::run_cfg(fe, &script).map_err(|m| Fail::new("does-not-terminate", format!("{}: {m}; stream = {}", crate::props::c11::fe_name(fe), hex_short(&stream, 120))))?;
            let hard = evs.iter().filter(|e| matches!(e.1, Ev::IoOther(..))).count();
            let soft = evs.iter().filter(|e| matches!(e.1, Ev::IoWouldBlock(_))).count();
            ensure!(
                hard == 1 && soft == 1,
                "source-failure-not-reported-as-error-value",
                "{}: the source reported one hard error (before byte {}) and one would-block (before byte {}), the reader returned {} I/O error(s) and {} would-block(s): {}\nstream = {}",
                crate::props::c11::fe_name(fe),
                p_other,
                p_wb,
                hard,
                soft,
                drive::show_pos(&evs),
                hex_short(&stream, 120)
            );
        }
        obs.class("readers:with-source-failures");
    }
    match i.cap {
        None => {
            drive::decode_streaming_fn::<VecK>(&stream, 3).map_err(cap_fail)?;
            drive::reader_slice::<VecK>(&stream, Poll::Next, 3).map_err(cap_fail)?;
            drive::reader_iter::<VecK>(&stream, Poll::Read, 3).map_err(cap_fail)?;
            drive::reader_io::<VecK>(drive::script_of(&stream), Poll::Next, 3).map_err(cap_fail)?;
            if stream.len() < 20_000 {
                drive::reader_io_default(drive::script_of(&stream), Poll::Read, 2).map_err(cap_fail)?;
            }
        }
        Some(n) => {
            with_cap!(n, K => {
                drive::decode_streaming_fn::<K>(&stream, 3).map_err(cap_fail)?;
                drive::reader_slice::<K>(&stream, Poll::Read, 3).map_err(cap_fail)?;
                drive::reader_iter::<K>(&stream, Poll::Next, 3).map_err(cap_fail)?;
                drive::reader_io::<K>(drive::script_of(&stream), Poll::Read, 3).map_err(cap_fail)?;
                Ok::<(), Fail>(())
            })?;
        }
    }
    // (iii) encoders, including a buffer that is too small
    let p = &i.m;
    let _ = encode::<Vec<u8>>(p);
    let _ = drive::encode_any::<Vec<u8>>(p);
    let _ = with_cap!(i.enc_cap, K => enc_arr::<K>(p));
    let mut it = encode_streaming(p);
    let cap_steps = 2 * p.len() + 24;
    let mut n = 0;
    while it.next().is_some() {
        n += 1;
        ensure!(n <= cap_steps, "does-not-terminate", "encode_streaming({}) yielded more than {} bytes", hex_short(p, 40), cap_steps);
    }
    for k in 0..(if p.len() % 5 == 0 { 300 } else { 3 }) {
        let x = it.next();
        ensure!(x.is_none(), "encoder-resumes", "encode_streaming returned {:?} on call {} after its end", x, k + 1);
    }
    // every other entry point of the iterator encoder: size_hint() in every state, and the std consumers
    // that call it on the caller's behalf while growing (collect, extend)
    let mut it = sml_rs::transport::Encoder::new(p.iter().copied());
    let mut n = 0;
    loop {
        let _ = it.size_hint();
        if it.next().is_none() || n > cap_steps {
            break;
        }
        n += 1;
    }
    let _ = it.size_hint();
    let _: Vec<u8> = encode_streaming(p).take(cap_steps + 1).collect();
    let mut grown: Vec<u8> = Vec::with_capacity(p.len() % 7);
    grown.extend(encode_streaming(p.to_vec()).take(cap_steps + 1));
    // (v) stack use must not grow with the input: the workers of this harness run on 256 MiB stacks, which
    // would hide one stack frame per consumed byte. Long streams / payloads are therefore run once more
    // through every front-end on a thread with the stack std gives every spawned thread (2 MiB); a stack
    // overflow there is an abort (crash guard), not an error value.
    // (one long case in eight, chosen by the stream's hash, and every fixed long input of the enumerated part)
    if (stream.len() >= 16_384 || p.len() >= 16_384) && (stream.len() >= 120_000 || crate::util::fnv64(&stream) % 8 == 0) {
        obs.class("ordinary-stack-probe");
        let r = crate::engine::guard::on_ordinary_stack(|| -> Result<(), String> {
            let mut d = Decoder::<Vec<u8>>::new();
            for &b in &stream {
                let _ = d.push_byte(b);
            }
            let _ = d.finalize();
            let mut d = Decoder::<sml_rs::util::ArrayBuf<16>>::new();
            for &b in &stream {
                let _ = d.push_byte(b);
            }
            let _ = d.reset();
            let _ = drive::decode_fn(&stream);
            drive::decode_streaming_fn::<VecK>(&stream, 1)?;
            drive::decode_streaming_fn::<drive::Arr<16>>(&stream, 1)?;
            drive::reader_slice::<VecK>(&stream, Poll::Next, 1)?;
            drive::reader_slice_default(&stream, Poll::Read, 1)?;
            drive::reader_iter::<drive::Arr<16>>(&stream, Poll::Read, 1)?;
            drive::reader_io::<VecK>(drive::script_of(&stream), Poll::Next, 1)?;
            let f = encode::<Vec<u8>>(p).map_err(|_| "encode::<Vec<u8>> failed".to_string())?;
            let n = encode_streaming(p).take(2 * p.len() + 25).count();
            if n != f.len() {
                return Err(format!("encode_streaming yields {} bytes, encode {}", n, f.len()));
            }
            let mut d = Decoder::<Vec<u8>>::new();
            for &b in &f {
                let _ = d.push_byte(b);
            }
            drive::decode_streaming_fn::<VecK>(&f, 1)?;
            Ok(())
        });
        match r {
            Ok(Ok(())) => {}
            Ok(Err(m)) => return Err(cap_fail(format!("on a 2 MiB stack: {m}"))),
            Err(pi) if pi.in_harness() => return Err(Fail::new("harness-panic", format!("HARNESS BUG: {}", pi.describe()))),
            Err(pi) => {
                return Err(Fail::new(
                    format!("panic@{}:{}", pi.file.rsplit('/').next().unwrap_or(""), pi.line),
                    format!("library code panicked (2 MiB stack probe): {}", pi.describe()),
                ))
            }
        }
    }
    let long = stream.len() >= 256;
    if long {
        obs.class("stream:>=256");
    }
    if stream.len() >= 65536 {
        obs.class("stream:>=65536");
    }
    obs.class(match i.cap {
        None => "buffer:vec".to_string(),
        Some(0) => "buffer:arraybuf0".to_string(),
        Some(n) if n < 32 => "buffer:arraybuf<32".to_string(),
        Some(_) => "buffer:arraybuf>=32".to_string(),
    });
    let had_err = obs.counters.iter().any(|(k, n)| *k == "error-events" && *n > 0);
    obs.nontrivial_if(had_err || long);
    Ok(())
}

impl Prop for C05 {
    const ID: &'static str = "C05";
    const RULE: &'static str = "call histories over {push(G2 token chunk), finalize(), reset()} (1..8 ops; chunks contain valid, mutated and CRC-recomputed frames, escapes, partial start sequences, noise runs up to 140k incl. k*65536 +- 3) on Decoder<Vec> or Decoder<ArrayBuf<N>> (N from the dispatch set incl. 0), followed by the usability probe finalize() + frame(m) => exactly Ok(m); the concatenated bytes through decode, decode_streaming and SmlReader over slice/iterator/io::Read with step caps (at most |s|+2 results) and extra calls after the end of input; both encoders on m incl. a too-small ArrayBuf and an iterator step cap; for the growable buffer, fault injection through the harness allocator: the n-th heap allocation inside push_byte / encode fails and must surface as Err(OutOfMemory), after which the decoder must still decode a frame. Oracle: no panic (the 'checked' profile turns counter overflow into a panic), no abort (crash guard), step caps hold, object usable afterwards. Non-trivial: the history produced at least one error event or pushed >= 256 bytes. Distinct = distinct inputs.";
    type Case = Case;
    type Input = Input;

    fn budget(tier: Tier) -> u64 {
        tier.pick(600_000, 4_000_000)
    }

    fn strategy(tier: Tier) -> BoxedStrategy<Case> {
        let big = prop::bool::weighted(tier.pick(0.03, 0.05));
        big.prop_flat_map(|big| {
            let op = prop_oneof![
                1500 => stream(5, big).prop_map(OpTok::Push),
                250 => Just(OpTok::Finalize),
                250 => Just(OpTok::Reset),
                1 => (prop_oneof![Just(262_145usize), Just(300_000usize)], any::<u8>()).prop_map(|(l, b)| OpTok::PushHuge(l, b)),
            ];
            (vec(op, 1..8), prop::option::weighted(0.6, any::<u16>()), moderate_payload(), any::<u16>(), prop::option::weighted(0.25, 0u32..12))
        })
        .prop_map(|(ops, cap, m, enc_cap, alloc_fail)| Case { ops, cap, m, enc_cap, alloc_fail })
        .boxed()
    }

    fn lower(c: &Case) -> Input {
        let ops = c
            .ops
            .iter()
            .map(|o| match o {
                OpTok::Push(t) => Op::Push(lower_stream(t)),
                OpTok::PushHuge(l, b) => Op::Push(crate::refmodel::transport::ref_frame(&vec![*b; *l])),
                OpTok::Finalize => Op::Finalize,
                OpTok::Reset => Op::Reset,
            })
            .collect();
        Input { ops, cap: c.cap.map(|x| CAPS[pick(x, CAPS.len())]), m: c.m.bytes(), enc_cap: CAPS[pick(c.enc_cap, 40)], alloc_fail: if c.cap.is_none() { c.alloc_fail } else { None } }
    }

    fn eval(i: &Input, obs: &mut Obs) -> Result<(), Fail> {
        eval_input(i, obs)
    }

    fn to_kv(i: &Input) -> Kv {
        let mut kv = Kv::new();
        kv.put("cap", i.cap.map(|c| c.to_string()).unwrap_or_else(|| "none".into()));
        kv.put_u("enc_cap", i.enc_cap as u64).put_b("m", &i.m);
        kv.put("alloc_fail", i.alloc_fail.map(|n| n.to_string()).unwrap_or_else(|| "none".into()));
        for op in &i.ops {
            match op {
                Op::Push(b) => kv.put("op", format!("push:{}", hex_rle(b))),
                Op::Finalize => kv.put("op", "finalize"),
                Op::Reset => kv.put("op", "reset"),
            };
        }
        kv
    }

    fn from_kv(kv: &Kv) -> Result<Input, String> {
        let cap = match kv.get("cap")? {
            "none" => None,
            s => Some(s.parse::<usize>().map_err(|e| e.to_string())?),
        };
        let enc_cap = kv.get_u("enc_cap")? as usize;
        for c in cap.iter().chain(std::iter::once(&enc_cap)) {
            if !CAPS.contains(c) {
                return Err(format!("capacity {c} not in dispatch set"));
            }
        }
        let mut ops = Vec::new();
        for o in kv.all("op") {
            ops.push(match o {
                "finalize" => Op::Finalize,
                "reset" => Op::Reset,
                s => Op::Push(unhex_rle(s.strip_prefix("push:").ok_or("bad op")?)?),
            });
        }
        let alloc_fail = match kv.get_opt("alloc_fail").unwrap_or("none") {
            "none" => None,
            s => Some(s.parse::<u32>().map_err(|e| e.to_string())?),
        };
        Ok(Input { ops, cap, m: kv.get_b("m")?, enc_cap, alloc_fail })
    }

    fn exhaustive_desc(tier: Tier) -> String {
        let l = tier.pick(4, 5);
        format!("7 fixed streams with one silent stretch of 120 000 bytes (noise / partial start sequences / one long frame) through every front-end on a 2 MiB stack; every call history of length 1..={} over 15 operations (push of each of the 13 tokens of C02's alphabet, finalize(), reset()): {} histories, buffers Vec / ArrayBuf<0> / ArrayBuf<4> / ArrayBuf<64>", l, (1..=l).map(|k| 15u64.pow(k as u32)).sum::<u64>())
    }

    fn exhaustive(tier: Tier, shard: usize, nshards: usize, f: &mut dyn FnMut(&Input) -> bool) {
        let l = tier.pick(4, 5);
        let alpha = small_alphabet();
        // fixed long inputs for the ordinary-stack probe: one silent stretch of 120 000 bytes of each kind
        // (noise of one value, noise of 0x1b, a partial start sequence repeated, one long frame of zeros / 0x1b /
        // plain bytes), each followed by a small valid frame
        let long_kinds = 7usize;
        for k in 0..long_kinds {
            if k % nshards != shard {
                continue;
            }
            let n = 120_000usize;
            let mut s: Vec<u8> = match k {
                0 => vec![0xa5; n],
                1 => vec![0x1b; n],
                2 => [0x1b, 0x1b, 0x1b, 0x1b, 0x01, 0x01, 0x01].iter().copied().cycle().take(n).collect(),
                3 => ref_frame(&vec![0x00; n]),
                4 => ref_frame(&vec![0x1b; n]),
                5 => ref_frame(&(0..n).map(|i| (i % 251) as u8 | 0x20).collect::<Vec<u8>>()),
                _ => {
                    let mut v = vec![0x1b, 0x1b, 0x1b, 0x1b, 0x01, 0x01, 0x01, 0x01];
                    v.extend(std::iter::repeat(0x00).take(n));
                    v
                }
            };
            s.extend_from_slice(&ref_frame(&[0x11, 0x22, 0x33]));
            let m = if k == 5 { vec![0x1b; 40_000] } else { vec![0xa5, 0x00] };
            if !f(&Input { ops: vec![Op::Push(s)], cap: None, m, enc_cap: 16, alloc_fail: None }) {
                return;
            }
        }
        let mut g = 0u64;
        for len in 1..=l {
            let count = 15u64.pow(len as u32);
            for k in 0..count {
                if g % nshards as u64 == shard as u64 {
                    let mut idx = k;
                    let mut ops = Vec::with_capacity(len);
                    for _ in 0..len {
                        let o = (idx % 15) as usize;
                        idx /= 15;
                        ops.push(match o {
                            13 => Op::Finalize,
                            14 => Op::Reset,
                            t => Op::Push(lower_stream(std::slice::from_ref(&alpha[t]))),
                        });
                    }
                    let cap = [None, Some(0usize), Some(4), Some(64)][(g % 4) as usize];
                    if !f(&Input { ops, cap, m: vec![0xa5, 0x00], enc_cap: 16, alloc_fail: None }) {
                        return;
                    }
                }
                g += 1;
            }
        }
    }
}
