#!/usr/bin/env python3
"""Run the quick checks against a kept seeded change and record which ones detect it.

  tools/seed_run.py <name> [ID ...]     (default: all 18)
"""
import json, os, subprocess, sys
verif = os.path.dirname(os.path.dirname(os.path.abspath(__file__)))
name = sys.argv[1]
ids = sys.argv[2:]
d = os.path.join(verif, "seeded", name)
r = subprocess.run([os.path.join(verif, "tools", "sens.py"), os.path.join(d, "patch.diff")] + ids, text=True, stdout=subprocess.PIPE, stderr=subprocess.STDOUT)
print(r.stdout)
meta = json.load(open(os.path.join(d, "meta.json")))
for line in r.stdout.splitlines():
    if line.startswith("SUMMARY"):
        for kv in line.split()[1:]:
            k, v = kv.split("=")
            meta["checks"][k] = v
meta["detected_by"] = sorted(k for k, v in meta["checks"].items() if v == "DETECTED")
json.dump(meta, open(os.path.join(d, "meta.json"), "w"), indent=1)
