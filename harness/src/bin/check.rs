//! `check <ID> --tier quick|thorough --seed N --profile NAME [--share F] [--no-exhaustive]
//!        [--out frag.json] [--hashes file] [--replay file] [--scale F]`
//! `check union-count <files...>`

use smlverif::engine::{self, Opts, Tier};
use smlverif::props;

fn main() {
    let args: Vec<String> = std::env::args().skip(1).collect();
    if args.is_empty() {
        eprintln!("usage: check <ID> [options] | check union-count <files>");
        std::process::exit(2);
    }
    if args[0] == "union-count" {
        println!("{}", engine::union_count(&args[1..]));
        return;
    }
    if args[0] == "fuzz-to-replay" {
        // check fuzz-to-replay <ID> <artifact> <out.case> [gen]
        let data = std::fs::read(&args[2]).expect("artifact");
        let text = if args.get(4).map(|s| s == "gen").unwrap_or(false) { smlverif::fuzz::to_replay_gen(&args[1], &data) } else { smlverif::fuzz::to_replay(&args[1], &data) };
        match text {
            Some(t) => {
                std::fs::write(&args[3], format!("# converted from libFuzzer artifact {}\n{}", args[2], t)).expect("write");
                std::process::exit(0)
            }
            None => {
                eprintln!("artifact does not decode to a case");
                std::process::exit(3)
            }
        }
    }
    if args[0] == "extract-corpus" {
        extract_corpus();
        return;
    }
    let id = args[0].clone();
    let mut opts = Opts {
        tier: Tier::Quick,
        seed: std::env::var("VERIF_SEED").ok().and_then(|s| s.parse().ok()).unwrap_or(1),
        profile: "checked".into(),
        share: 1.0,
        run_exhaustive: true,
        shards: 16,
        out: None,
        hashes_out: None,
        replay_dir: "/verif/replays".into(),
        known_file: "/verif/known_findings.txt".into(),
        replay: None,
        scale: 1.0,
    };
    let mut i = 1;
    while i < args.len() {
        let a = args[i].as_str();
        let mut val = || {
            i += 1;
            args.get(i).cloned().unwrap_or_else(|| {
                eprintln!("missing value for {a}");
                std::process::exit(2)
            })
        };
        match a {
            "--tier" => {
                opts.tier = match val().as_str() {
                    "quick" => Tier::Quick,
                    "thorough" => Tier::Thorough,
                    other => {
                        eprintln!("unknown tier {other}");
                        std::process::exit(2)
                    }
                }
            }
            "--seed" => opts.seed = val().parse().expect("seed"),
            "--profile" => opts.profile = val(),
            "--share" => opts.share = val().parse().expect("share"),
            "--scale" => opts.scale = val().parse().expect("scale"),
            "--shards" => opts.shards = val().parse().expect("shards"),
            "--no-exhaustive" => opts.run_exhaustive = false,
            "--out" => opts.out = Some(val()),
            "--hashes" => opts.hashes_out = Some(val()),
            "--replay" => opts.replay = Some(val()),
            "--replay-dir" => opts.replay_dir = val(),
            "--known" => opts.known_file = val(),
            other => {
                eprintln!("unknown option {other}");
                std::process::exit(2)
            }
        }
        i += 1;
    }
    let code = props::dispatch(&id, &opts);
    std::process::exit(code);
}

/// Decodes /repo/tests/libsml-testing/*.bin and writes every decoded payload to
/// corpus-seed/sml/NNN.bin and every raw transmission to corpus-seed/transport/NNN.bin.
fn extract_corpus() {
    use smlverif::gen::pinput::CORPUS_DIR;
    let src = "/repo/tests/libsml-testing";
    let mut names: Vec<_> = std::fs::read_dir(src).expect("test data").filter_map(|e| e.ok()).map(|e| e.path()).filter(|p| p.extension().map(|x| x == "bin").unwrap_or(false)).collect();
    names.sort();
    std::fs::create_dir_all(format!("{}/sml", CORPUS_DIR)).unwrap();
    std::fs::create_dir_all(format!("{}/transport", CORPUS_DIR)).unwrap();
    let mut n = 0;
    let mut seen = std::collections::HashSet::new();
    for (fi, name) in names.iter().enumerate() {
        let bytes = std::fs::read(name).unwrap();
        if fi % 4 == 0 {
            std::fs::write(format!("{}/transport/{:03}.bin", CORPUS_DIR, fi), &bytes[..bytes.len().min(2000)]).unwrap();
        }
        for r in sml_rs::transport::decode(&bytes) {
            if let Ok(p) = r {
                if seen.insert(p.clone()) {
                    std::fs::write(format!("{}/sml/{:03}.bin", CORPUS_DIR, n), &p).unwrap();
                    n += 1;
                }
            }
        }
    }
    println!("wrote {} payloads", n);
}
