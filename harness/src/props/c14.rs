//! C14 - the decoder keeps no memory across transmission boundaries.

use crate::drive::{self, BufKind, Ev, VecK};
use crate::engine::caps::{pick, CAPS};
use crate::engine::guard;
use crate::engine::{Fail, Obs, Prop, Tier};
use crate::gen::stream::*;
use crate::util::{hex_short, Kv};
use crate::{ensure, with_cap};
use proptest::prelude::*;
use sml_rs::transport::{DecodeErr, Decoder};

pub struct C14;

#[derive(Debug, Clone)]
pub struct Case {
    pub s1: Vec<STok>,
    /// 0: cut s1 right after its last boundary event; 1: reset(); 2: finalize()
    pub action: u8,
    /// for action 1/2: cut s1 at this fraction
    pub cut: u16,
    pub s2: Vec<STok>,
    pub cap: Option<u16>,
}

#[derive(Debug, Clone)]
pub struct Input {
    pub s1: Vec<u8>,
    pub action: u8,
    pub s2: Vec<u8>,
    pub cap: Option<usize>,
}

fn is_boundary(e: &Ev) -> bool {
    matches!(e, Ev::Msg(_) | Ev::Err(DecodeErr::InvalidMessage { .. }) | Ev::Err(DecodeErr::InvalidEsc(_)) | Ev::Err(DecodeErr::OutOfMemory))
}

type Trace = (Vec<(usize, Ev)>, Option<DecodeErr>, bool);

fn continue_with<B: sml_rs::util::Buffer>(dec: &mut Decoder<B>, s2: &[u8]) -> Trace {
    let mut evs = Vec::new();
    let r = guard::catch(|| {
        drive::push_all(dec, s2, 0, &mut evs);
        dec.finalize()
    });
    match r {
        Ok(fin) => (evs, fin, false),
        Err(_) => (evs, None, true),
    }
}

fn run<K: BufKind>(i: &Input, obs: &mut Obs) -> Result<(), Fail> {
    let who = format!("Decoder<{}<{}>>", K::NAME, K::CAP);
    // locate the boundary
    let mut s1 = i.s1.clone();
    let mut boundary_kind = "none";
    if i.action == 0 {
        let mut evs = Vec::new();
        let r = guard::catch(|| {
            let mut probe = Decoder::<K::B>::new();
            drive::push_all(&mut probe, &s1, 0, &mut evs);
        });
        if r.is_err() {
            // a panic while consuming s1 is a totality defect (C05), not a statement about boundaries
            obs.class("s1-panicked:not-judged");
            return Ok(());
        }
        match evs.iter().rev().find(|(_, e)| is_boundary(e)) {
            Some((c, e)) => {
                s1.truncate(*c);
                boundary_kind = match e {
                    Ev::Msg(_) => "delivered",
                    Ev::Err(DecodeErr::InvalidMessage { .. }) => "invalid-message",
                    Ev::Err(DecodeErr::InvalidEsc(_)) => "invalid-esc",
                    _ => "out-of-memory",
                };
            }
            None => {
                obs.class("precondition-miss:no-boundary-event-in-s1");
                return Ok(());
            }
        }
    }
    let mut used = Decoder::<K::B>::new();
    let mut pre = Vec::new();
    let mut pending = false;
    let r = guard::catch(|| {
        drive::push_all(&mut used, &s1, 0, &mut pre);
        match i.action {
            1 => pending = used.reset() > 0,
            2 => pending = used.finalize().is_some(),
            _ => {}
        }
    });
    if r.is_err() {
        obs.class("s1-panicked:not-judged");
        return Ok(());
    }
    match i.action {
        1 => boundary_kind = "reset",
        2 => boundary_kind = "finalize",
        _ => {}
    }
    let got = continue_with(&mut used, &i.s2);
    let mut fresh = Decoder::<K::B>::new();
    let want = continue_with(&mut fresh, &i.s2);
    // a decoder constructed over an existing buffer that still holds bytes is a new decoder as well
    let mut recycled = Decoder::<K::B>::from_buf(drive::prefilled(&drive::junk_for(&s1)));
    let want2 = continue_with(&mut recycled, &i.s2);
    ensure!(
        want2 == want,
        "from_buf-differs-from-new",
        "{who}: Decoder::from_buf(buffer holding {}) answers s2 = {} with {} finalize={:?}; Decoder::new() answers {} finalize={:?}",
        hex_short(&drive::junk_for(&s1), 16),
        hex_short(&i.s2, 80),
        drive::show_pos(&want2.0),
        want2.1,
        drive::show_pos(&want.0),
        want.1
    );
    ensure!(
        got == want,
        format!("state-leaks-across-boundary:{}", boundary_kind),
        "{who}: after s1 = {} ({} bytes, boundary: {}) the decoder answers s2 = {} with {} finalize={:?}{}; a new decoder answers {} finalize={:?}{}",
        hex_short(&s1, 80),
        s1.len(),
        boundary_kind,
        hex_short(&i.s2, 80),
        drive::show_pos(&got.0),
        got.1,
        if got.2 { " (panicked)" } else { "" },
        drive::show_pos(&want.0),
        want.1,
        if want.2 { " (panicked)" } else { "" }
    );
    if want.2 {
        obs.class("both-panicked:not-judged");
    }
    // corollary: decode(s1 ++ s2) == events(s1) ++ decode(s2) when the split is on a boundary event
    if i.action == 0 && K::CAP == usize::MAX && !want.2 {
        let mut cat = s1.clone();
        cat.extend_from_slice(&i.s2);
        let whole = drive::decode_fn(&cat);
        let mut parts: Vec<Ev> = pre.iter().map(|x| x.1.clone()).collect();
        parts.extend(drive::decode_fn(&i.s2));
        ensure!(whole == parts, "decode-of-concatenation-differs", "decode(s1 ++ s2) = {} but events(s1) ++ decode(s2) = {}; s1 = {}, s2 = {}", drive::show(&whole), drive::show(&parts), hex_short(&s1, 80), hex_short(&i.s2, 80));
    }
    obs.class(format!("boundary:{}", boundary_kind));
    let s2_ok = want.0.iter().any(|e| e.1.is_msg());
    if s2_ok {
        obs.class("s2:yields-ok");
    }
    let hard = matches!(boundary_kind, "invalid-message" | "invalid-esc" | "out-of-memory") || ((i.action == 1 || i.action == 2) && pending);
    obs.nontrivial_if(hard && s2_ok);
    Ok(())
}

pub fn eval_input(i: &Input, obs: &mut Obs) -> Result<(), Fail> {
    match i.cap {
        None => run::<VecK>(i, obs),
        Some(n) => with_cap!(n, K => run::<K>(i, obs)),
    }
}

impl Prop for C14 {
    const ID: &'static str = "C14";
    const RULE: &'static str = "s1 = G2 token stream, cut right after the last boundary event the decoder reports for it (delivered frame, InvalidMessage, InvalidEsc, OutOfMemory with a small ArrayBuf), or cut anywhere and followed by reset() / finalize(); s2 = G2 token stream biased towards valid frames, zero tails and re-aligned 0x1b tails; buffers Vec and ArrayBuf<N>. Oracle: events (with positions) and the finalize result of the used decoder on s2 equal those of Decoder::new() on s2; corollary decode(s1++s2) == events(s1) ++ decode(s2). Non-trivial: the boundary is an error / out-of-memory / a reset or finalize with pending bytes, and s2 yields at least one Ok. Distinct = distinct inputs.";
    type Case = Case;
    type Input = Input;

    fn budget(tier: Tier) -> u64 {
        tier.pick(1_000_000, 8_000_000)
    }

    fn strategy(_tier: Tier) -> BoxedStrategy<Case> {
        let s2 = (stream(5, false), crate::gen::payload::moderate_payload(), stream(3, false)).prop_map(|(mut a, p, b)| {
            a.push(STok::Frame(p));
            a.extend(b);
            a
        });
        (stream(8, false), prop_oneof![3 => Just(0u8), 1 => Just(1u8), 1 => Just(2u8)], any::<u16>(), s2, prop::option::weighted(0.5, any::<u16>()))
            .prop_map(|(s1, action, cut, s2, cap)| Case { s1, action, cut, s2, cap })
            .boxed()
    }

    fn lower(c: &Case) -> Input {
        let mut s1 = lower_stream(&c.s1);
        if c.action != 0 {
            let k = pick(c.cut, s1.len() + 1);
            s1.truncate(k);
        }
        let cap = c.cap.map(|x| CAPS[pick(x, 40)]);
        Input { s1, action: c.action, s2: lower_stream(&c.s2), cap }
    }

    fn eval(i: &Input, obs: &mut Obs) -> Result<(), Fail> {
        eval_input(i, obs)
    }

    fn to_kv(i: &Input) -> Kv {
        let mut kv = Kv::new();
        kv.put_b("s1", &i.s1).put_u("action", i.action as u64).put_b("s2", &i.s2);
        kv.put("cap", i.cap.map(|c| c.to_string()).unwrap_or_else(|| "none".into()));
        kv
    }

    fn from_kv(kv: &Kv) -> Result<Input, String> {
        let cap = match kv.get("cap")? {
            "none" => None,
            s => Some(s.parse::<usize>().map_err(|e| e.to_string())?),
        };
        if let Some(c) = cap {
            if !CAPS.contains(&c) {
                return Err(format!("capacity {c} not in dispatch set"));
            }
        }
        Ok(Input { s1: kv.get_b("s1")?, action: kv.get_u("action")? as u8, s2: kv.get_b("s2")?, cap })
    }

    fn exhaustive_desc(tier: Tier) -> String {
        let (l1, l2) = tier.pick((3, 2), (3, 3));
        format!("every pair (s1, s2) of token sequences over the 13-token alphabet of C02 with |s1| <= {} and |s2| <= {} ({} pairs), the boundary action cycling through cut-after-event / reset / finalize, buffers Vec and ArrayBuf<8>", l1, l2, small_seq_total(l1) * small_seq_total(l2))
    }

    fn exhaustive(tier: Tier, shard: usize, nshards: usize, f: &mut dyn FnMut(&Input) -> bool) {
        let (l1, l2) = tier.pick((3, 2), (3, 3));
        let alpha = small_alphabet();
        let (t1, t2) = (small_seq_total(l1), small_seq_total(l2));
        let mut idx = shard as u64;
        while idx < t1 * t2 {
            let s1 = small_seq_bytes(&alpha, l1, idx / t2);
            let s2 = small_seq_bytes(&alpha, l2, idx % t2);
            let cap = if idx % 2 == 0 { None } else { Some(8) };
            if !f(&Input { s1, action: (idx % 3) as u8, s2, cap }) {
                return;
            }
            idx += nshards as u64;
        }
    }
}
