//! C04 - parser soundness: data only from well-formed, CRC-valid, fully consumed input.

use crate::engine::{Fail, Obs, Prop, Tier};
use crate::ensure;
use crate::gen::pinput::*;
use crate::props::parsers::*;
use crate::refmodel::sml::*;
use crate::util::{clip, hex_short, Kv};
use proptest::prelude::*;

pub struct C04;

pub fn eval_bytes(x: &[u8], how: &str, obs: &mut Obs) -> Result<(), Fail> {
    let r = read_events(x, true);
    let c = run_complete(x);
    let s = run_streaming(x, 0);
    ensure!(!s.cap_exceeded, "streaming-endless", "streaming parser did not finish within {} calls; input = {}", x.len() + 2, hex_short(x, 160));
    match &r.reject {
        None => {
            let file = assemble(&r.events).expect("accepted input assembles");
            ensure!(
                c.as_ref().ok() == Some(&file),
                if c.is_err() { "well-formed-input-rejected" } else { "parsed-value-differs-from-grammar" },
                "the grammar accepts the input, complete::parse returns {}\nindependent reading: {}\ninput ({}; {} bytes) = {}",
                clip(format!("{:?}", c), 700),
                clip(format!("{:?}", file), 700),
                how,
                x.len(),
                hex_short(x, 200)
            );
            ensure!(
                s.err.is_none() && s.events == r.events,
                if s.err.is_some() { "well-formed-input-rejected-streaming" } else { "parsed-value-differs-from-grammar-streaming" },
                "the grammar accepts the input, the streaming parser yields {} err={:?}; independent reading: {}\ninput ({}) = {}",
                show_events(&s.events),
                s.err,
                show_events(&r.events),
                how,
                hex_short(x, 200)
            );
            obs.class("ref:accept");
        }
        Some(rej) => {
            ensure!(
                c.is_err(),
                format!("malformed-input-accepted:{}", rej.kind.label()),
                "the grammar rejects the input ({} at offset {}: {}), but complete::parse returns data:\n  {}\ninput ({}; {} bytes) = {}",
                rej.kind.label(),
                rej.at,
                rej.what,
                clip(format!("{:?}", c), 700),
                how,
                x.len(),
                hex_short(x, 200)
            );
            ensure!(
                s.err.is_some(),
                format!("malformed-input-accepted-streaming:{}", rej.kind.label()),
                "the grammar rejects the input ({} at offset {}: {}), but the streaming parser ends without an error after {}\ninput ({}; {} bytes) = {}",
                rej.kind.label(),
                rej.at,
                rej.what,
                show_events(&s.events),
                how,
                x.len(),
                hex_short(x, 200)
            );
            obs.class(format!("ref:reject:{}", rej.kind.label()));
        }
    }
    let accept = r.reject.is_none();
    let structural = r.reject.as_ref().map(|j| j.kind != RejectKind::Crc).unwrap_or(false);
    obs.nontrivial_if((accept && !x.is_empty()) || (structural && !how.starts_with("random")));
    Ok(())
}

impl Prop for C04 {
    const ID: &'static str = "C04";
    const RULE: &'static str = "G5: G4 encodings and real meter payloads under 1..2 mutations (flip / insert / delete / truncate / extend / splice, list arity +-1, type nibble, body / time / list tag, end marker, checksum byte, any TLF replaced by one declaring 0..20, 2^8+-1, 2^16+-1, 2^24+-1, 2^31+-1, 2^32-3..2^32-1 or >= 2^32 in 9..12 nibbles), each with probability 1/2 followed by checksum fix-up of every locatable message; plus grammar-level mutations of the parsed TLV tree (retype / resize a primitive, replace a node by an absent marker / integer of any width / boolean / list, drop / duplicate / insert / swap / wrap / unwrap children, non-minimal TLFs) written back with self-consistent TLFs and recomputed checksums, valid files and random bytes. Oracle: the independent reader R3 - it accepts => both parsers return exactly its value; it rejects => both return an error (kind not compared). Non-trivial: the reference accepts a non-empty input, or rejects a non-random input for a reason other than a checksum mismatch (i.e. a structural check decides). Distinct = distinct byte strings.";
    type Case = PCase;
    type Input = PInput;

    fn budget(tier: Tier) -> u64 {
        tier.pick(200_000, 5_000_000)
    }

    fn strategy(tier: Tier) -> BoxedStrategy<PCase> {
        pcase(tier == Tier::Thorough, (2, 10, 3, 1))
    }

    fn lower(c: &PCase) -> PInput {
        lower(c)
    }

    fn eval(i: &PInput, obs: &mut Obs) -> Result<(), Fail> {
        obs.class(i.origin_class());
        eval_bytes(&i.bytes, &i.how, obs)
    }

    fn to_kv(i: &PInput) -> Kv {
        i.to_kv()
    }

    fn from_kv(kv: &Kv) -> Result<PInput, String> {
        PInput::from_kv(kv)
    }

    fn exhaustive_desc(_tier: Tier) -> String {
        format!("every real meter payload in corpus-seed/sml ({} files) unmodified, with each single byte deleted at 16 evenly spaced offsets, and truncated at 16 evenly spaced offsets, with and without checksum fix-up; plus the complete single-mutation neighbourhood of a showcase file (every construct of the subset) and 6 real payloads under the grammar-level catalogue ({} mutations: every retype, resize 0..=9, replacement by absent / unsigned / signed / octet of width 0..=9 / boolean / empty list / list of 1..=8 absent markers, drop, dup, insert, swap, wrap, unwrap, tag bytes, extra TLF byte) at every node, checksums recomputed; plus the complete single-byte neighbourhood of every type-length field of those inputs (each TLF byte replaced by each of the 255 other values)", real_payloads().len(), crate::gen::tree::catalogue().len())
    }

    fn exhaustive(_tier: Tier, shard: usize, nshards: usize, f: &mut dyn FnMut(&PInput) -> bool) {
        let all = real_payloads();
        let mut g = 0usize;
        for p in all {
            let mut variants: Vec<(Vec<u8>, String)> = vec![(p.clone(), "dump[] unmodified".into())];
            for k in 0..16 {
                let pos = (p.len() * k) / 16;
                let mut d = p.clone();
                if pos < d.len() {
                    d.remove(pos);
                }
                let mut d2 = d.clone();
                fix_crcs(&mut d2);
                variants.push((d, format!("dump[delete@{}]", pos)));
                variants.push((d2, format!("dump[delete@{}] crc-fixed", pos)));
                variants.push((p[..pos].to_vec(), format!("dump[truncate@{}]", pos)));
            }
            for (bytes, how) in variants {
                if g % nshards == shard && !f(&PInput { bytes, how }) {
                    return;
                }
                g += 1;
            }
        }
        crate::gen::tree::neighbourhood(shard, nshards, &mut |bytes, how| f(&PInput { bytes: bytes.clone(), how }));
        crate::gen::tree::tlf_byte_neighbourhood(shard, nshards, &mut |bytes, how| f(&PInput { bytes, how }));
    }
}
