#!/usr/bin/env python3
"""Runs every own sensitivity mutant in /verif/sens against the checks that should see it.
Writes /verif/sens/RESULTS.txt. Takes ~1 min per mutant (rebuild of both profiles)."""
import os, subprocess, sys, glob
VERIF = os.path.dirname(os.path.dirname(os.path.abspath(__file__)))
REL = {"c02": ["C02"], "c03": ["C03", "C04"], "c04": ["C04", "C09"], "c06": ["C06", "C04", "C09"], "c07": ["C07", "C01"],
       "c08": ["C08", "C10", "C11"], "c09": ["C09", "C04"], "c10": ["C10", "C15", "C11"], "c11": ["C11", "C17"],
       "c12": ["C12", "C03", "C04"], "c13": ["C13", "C06"], "c14": ["C14", "C01"], "c15": ["C15", "C10"],
       "c16": ["C16", "C01"], "c17": ["C17", "C05", "C15"], "c18": ["C18"]}
only = sys.argv[1:]
out = open(os.path.join(VERIF, "sens", "RESULTS.txt"), "a")
for f in sorted(glob.glob(os.path.join(VERIF, "sens", "*.diff"))):
    name = os.path.basename(f)[:-5]
    if only and name not in only:
        continue
    ids = REL[name[:3]]
    r = subprocess.run([os.path.join(VERIF, "tools", "sens.py"), f] + ids, text=True, stdout=subprocess.PIPE, stderr=subprocess.STDOUT)
    summ = [l for l in r.stdout.splitlines() if l.startswith("SUMMARY")]
    line = "%s %s" % (name, summ[0][8:] if summ else "ERROR " + r.stdout[-300:].replace("\n", " "))
    print(line, flush=True)
    out.write(line + "\n")
    out.flush()
    det = [l for l in r.stdout.splitlines() if "DETECTED" in l or l.startswith("      ")]
    for d in det[:6]:
        out.write("    " + d[:260] + "\n")
