//! smlverif - property-based testing and fuzzing harness for sml-rs (see /verif/DESIGN.md).

pub mod drive;
pub mod engine;
pub mod fuzz;
pub mod gen;
pub mod props;
pub mod refmodel;
pub mod util;

#[global_allocator]
static GLOBAL: engine::alloc::Tracking = engine::alloc::Tracking;
