#!/usr/bin/env python3
"""Rebuilds the sensitivity matrix of the session-3 batches (g..) in DESIGN.md from the raw result files
seeded/BATCH-*-results.txt (later files win for a change that was run again) and records the result in
each seeded/<name>/meta.json.   tools/mk_session3_table.py [extra result files ...]"""
import glob, json, os, re, sys
VERIF = os.path.dirname(os.path.dirname(os.path.abspath(__file__)))
files = [os.path.join(VERIF, "seeded", "BATCH-%s-results.txt" % b) for b in ["g", "h", "i", "j", "kl", "m", "n", "o", "p", "r", "s", "t", "u", "v", "wx"]]
files = [f for f in files if os.path.exists(f)] + sys.argv[1:]
res = {}
for f in files:
    for line in open(f):
        if line.startswith(" ") or not line.strip():
            continue
        parts = line.split()
        r = dict(p.split("=") for p in parts[1:] if "=" in p)
        if r and re.match(r"^[g-z]\d\d-", parts[0]):
            res[parts[0]] = r
rows = ["| Seeded change | Breaks | What it needs to manifest | Detected by (quick tier) | Own check |", "|---|---|---|---|---|"]
n = own = det = 0
for name in sorted(res):
    d = os.path.join(VERIF, "seeded", name)
    if not os.path.isdir(d):
        continue
    r = res[name]
    meta = json.load(open(os.path.join(d, "meta.json")))
    meta["checks"] = r
    meta["detected_by"] = sorted(k for k, v in r.items() if v == "DETECTED")
    json.dump(meta, open(os.path.join(d, "meta.json"), "w"), indent=1)
    pid = meta["breaks_property"]
    n += 1
    det += bool(meta["detected_by"])
    own += r.get(pid) == "DETECTED"
    rows.append("| `%s` | %s | %s | %s | %s |" % (name, pid, meta.get("needs_short", "see MUTANT.md"), ", ".join(meta["detected_by"]) or "**none**", "yes" if r.get(pid) == "DETECTED" else "**no**"))
head = "Matrix for the %d changes of batches `g`-`%s` (%d reported by at least one check, %d by the check of the property their author named):\n\n" % (n, sorted(res)[-1][0] if res else "g", det, own)
table = "<!-- S3_TABLE_BEGIN -->\n" + head + "\n".join(rows) + "\n<!-- S3_TABLE_END -->"
p = os.path.join(VERIF, "DESIGN.md")
s = open(p).read()
if "<<GK_TABLE>>" in s:
    s = s.replace("<<GK_TABLE>>", table)
else:
    s = re.sub(r"<!-- S3_TABLE_BEGIN -->.*?<!-- S3_TABLE_END -->", lambda m: table, s, flags=re.S)
open(p, "w").write(s)
print(head)
