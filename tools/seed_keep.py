#!/usr/bin/env python3
"""Confirm a seeded change produced in a scratch worktree and keep it under /verif/seeded/<name>/.

  tools/seed_keep.py <worktree> <name> <property-id>

Confirms, in a fresh scratch worktree of /repo HEAD (removed afterwards):
  1. the demonstration passes WITHOUT the change,
  2. with the change the crate compiles, every existing test passes and the demonstration FAILS.
Then stores patch.diff, the demonstration, the author's notes and meta.json.
"""
import json, os, re, shutil, subprocess, sys

def sh(cmd, cwd=None):
    return subprocess.run(cmd, shell=True, cwd=cwd, text=True, stdout=subprocess.PIPE, stderr=subprocess.STDOUT)

def main():
    wt, name, pid = sys.argv[1], sys.argv[2], sys.argv[3]
    verif = os.path.dirname(os.path.dirname(os.path.abspath(__file__)))
    patch = sh("git diff -- src", cwd=wt).stdout
    if not patch.strip():
        print("no source change in", wt); return 1
    demos = [f for f in os.listdir(os.path.join(wt, "tests")) if f.startswith("demo_") and f.endswith(".rs")]
    if not demos:
        print("no demonstration in", wt); return 1
    scratch = "/tmp/wt-verify-" + name
    sh("git -C /repo worktree remove --force %s" % scratch)
    r = sh("git -C /repo worktree add -q --detach %s HEAD" % scratch)
    ran = []
    try:
        for d in demos:
            shutil.copy(os.path.join(wt, "tests", d), os.path.join(scratch, "tests", d))
        # 1. demo passes without the change
        ok_without = True
        for d in demos:
            r = sh("cargo test --offline --features nb,embedded-hal-02 --test %s 2>&1 | grep -E '^test result|error' " % d[:-3], cwd=scratch)
            ran.append("without change: cargo test --offline --features nb,embedded-hal-02 --test %s -> %s" % (d[:-3], r.stdout.strip().replace("\n", " | ")))
            if "test result: ok" not in r.stdout or "FAILED" in r.stdout:
                ok_without = False
        # 2. with the change
        open(os.path.join(scratch, "p.diff"), "w").write(patch)
        r = sh("git apply p.diff", cwd=scratch)
        if r.returncode != 0:
            print("patch does not apply to /repo HEAD:", r.stdout); return 1
        r = sh("cargo test --workspace --no-fail-fast --offline 2>&1", cwd=scratch)
        out = r.stdout
        # the demonstration may need the optional front-ends (nb / embedded-hal): run it with them as well
        r2 = sh("cargo test --no-fail-fast --offline --features nb,embedded-hal-02 2>&1", cwd=scratch)
        out2 = r2.stdout
        compiled = "error: could not compile" not in out
        # split per test binary
        fails = re.findall(r"^test (\S+) \.\.\. FAILED", out, re.M)
        demo_fail = False
        other_fail = []
        # which binaries failed
        failed_bins = re.findall(r"error: test failed, to rerun pass `(.*?)`", out) + re.findall(r"error: test failed, to rerun pass `(.*?)`", out2)
        compiled = compiled and "error: could not compile" not in out2
        fails += re.findall(r"^test (\S+) \.\.\. FAILED", out2, re.M)
        for fb in failed_bins:
            if any(d[:-3] in fb for d in demos):
                demo_fail = True
            else:
                other_fail.append(fb)
        results = re.findall(r"^test result: .*$", out, re.M)
        ran.append("with change: cargo test --workspace --no-fail-fast --offline -> compiled=%s; failing test binaries: %s; failing tests: %s" % (compiled, failed_bins, fails))
        ok = ok_without and compiled and demo_fail and not other_fail
        print("\n".join(ran))
        if not ok:
            print("NOT CONFIRMED: ok_without=%s compiled=%s demo_fail=%s other_fail=%s" % (ok_without, compiled, demo_fail, other_fail))
            return 1
        dst = os.path.join(verif, "seeded", name)
        os.makedirs(dst, exist_ok=True)
        open(os.path.join(dst, "patch.diff"), "w").write(patch)
        for d in demos:
            shutil.copy(os.path.join(wt, "tests", d), os.path.join(dst, d))
        if os.path.exists(os.path.join(wt, "MUTANT.md")):
            shutil.copy(os.path.join(wt, "MUTANT.md"), os.path.join(dst, "MUTANT.md"))
        meta = {
            "name": name,
            "breaks_property": pid,
            "author": "independent sub-agent given only the property text and a scratch worktree",
            "needs_to_manifest": "see MUTANT.md",
            "confirmed": {"demo_passes_without_change": True, "compiles_with_change": True, "existing_tests_pass_with_change": True, "demo_fails_with_change": True},
            "what_was_run": ran,
            "checks": {},
        }
        json.dump(meta, open(os.path.join(dst, "meta.json"), "w"), indent=1)
        print("kept as", dst)
        return 0
    finally:
        sh("git -C /repo worktree remove --force %s" % scratch)
        shutil.rmtree(scratch, ignore_errors=True)

if __name__ == "__main__":
    sys.exit(main())
