//! G4: abstract SML files with encoding choices (strategies for the `C*` tree of refmodel::sml).

use crate::refmodel::sml::*;
use proptest::collection::vec;
use proptest::prelude::*;

/// extra (non-minimal) TLF bytes
pub fn extra() -> impl Strategy<Value = u8> {
    prop_oneof![10 => Just(0u8), 2 => Just(1u8), 1 => 2u8..4]
}

pub fn octet_len(max: usize) -> BoxedStrategy<usize> {
    if max <= 20 {
        (0..=max).boxed()
    } else {
        prop_oneof![
            12 => 0usize..13,
            4 => 13usize..18,        // crosses the 14/15 single-byte TLF limit
            2 => 18usize..40,
            1 => 250usize..258,      // crosses the 253/254 two-byte TLF limit
            1 => 40usize..max.max(41),
        ]
        .boxed()
    }
}

pub fn octet(max: usize) -> impl Strategy<Value = COctet> {
    (octet_len(max), any::<u64>(), extra(), 0u8..4).prop_map(|(len, seed, extra, kind)| {
        let mut data = Vec::with_capacity(len);
        match kind {
            0 => data.extend(std::iter::repeat(0x01).take(len)), // looks like "absent" markers
            _ => crate::gen::payload::fill(0, seed, len, &mut data),
        }
        COctet { data, extra }
    })
}

fn lead_byte() -> impl Strategy<Value = u8> {
    prop_oneof![Just(0x00u8), Just(0x01), Just(0x7f), Just(0x80), Just(0xfe), Just(0xff), any::<u8>()]
}

/// Raw big-endian value of `w` bytes (1..=8) with a boundary leading byte.
fn raw_bytes(w: u8) -> impl Strategy<Value = u64> {
    (lead_byte(), any::<u64>(), prop::bool::weighted(0.2)).prop_map(move |(lead, rest, zero_rest)| {
        let bits = 8 * (w as u32 - 1); // <= 56
        let low = if bits == 0 || zero_rest { 0 } else { rest & ((1u64 << bits) - 1) };
        ((lead as u64) << bits) | low
    })
}

pub fn cuint(min_w: u8, max_w: u8) -> impl Strategy<Value = CUint> {
    (min_w..=max_w).prop_flat_map(|w| (Just(w), raw_bytes(w), extra())).prop_map(|(width, value, extra)| CUint { value, width, extra })
}

pub fn cint(min_w: u8, max_w: u8) -> impl Strategy<Value = CInt> {
    (min_w..=max_w).prop_flat_map(|w| (Just(w), raw_bytes(w), extra())).prop_map(|(width, raw, extra)| {
        let shift = 64 - 8 * width as u32;
        let value = ((raw << shift) as i64) >> shift;
        CInt { value, width, extra }
    })
}

pub fn ctime() -> impl Strategy<Value = CTime> {
    prop_oneof![
        3 => (extra(), extra(), cuint(1, 4)).prop_map(|(list_extra, tag_extra, secs)| CTime::Std { list_extra, tag_extra, secs }),
        1 => (any::<u32>(), extra()).prop_map(|(secs, extra)| CTime::Bare { secs, extra }),
    ]
}

pub fn cvalue() -> impl Strategy<Value = CValue> {
    prop_oneof![
        2 => prop_oneof![Just(0u8), Just(1u8), Just(0xffu8), any::<u8>()].prop_map(CValue::Bool),
        3 => octet(300).prop_map(CValue::Bytes),
        5 => cint(1, 8).prop_map(CValue::Int),
        5 => cuint(1, 8).prop_map(CValue::Uint),
        1 => (extra(), extra(), ctime()).prop_map(|(list_extra, tag_extra, time)| CValue::ListTime { list_extra, tag_extra, time }),
    ]
}

fn opt<S: Strategy + 'static>(p: f64, s: S) -> impl Strategy<Value = Option<S::Value>>
where
    S::Value: Clone + 'static,
{
    prop::option::weighted(p, s)
}

pub fn centry() -> impl Strategy<Value = CEntry> {
    (extra(), octet(20), opt(0.5, cuint(1, 8)), opt(0.3, ctime()), opt(0.6, cuint(1, 1)), opt(0.6, cint(1, 1)), cvalue(), opt(0.2, octet(40)))
        .prop_map(|(list_extra, obj_name, status, val_time, unit, scaler, value, sig)| CEntry { list_extra, obj_name, status, val_time, unit, scaler, value, sig })
}

pub fn entries(tier_big: bool) -> BoxedStrategy<Vec<CEntry>> {
    if tier_big {
        prop_oneof![
            2 => Just(vec![]),
            10 => vec(centry(), 1..15),
            4 => vec(centry(), 14..19),   // crosses 15/16: two-byte list TLF
            1 => vec(centry(), 19..60),
            1 => vec(centry(), 250..262), // crosses 255/256: three-nibble list TLF
        ]
        .boxed()
    } else {
        prop_oneof![
            16 => Just(vec![]),
            96 => vec(centry(), 1..8),
            24 => vec(centry(), 14..19),
            8 => vec(centry(), 19..41),
            1 => vec(centry(), 250..262),   // rare in the quick tier: messages beyond 4 KiB
        ]
        .boxed()
    }
}

pub fn cbody(tier_big: bool) -> impl Strategy<Value = CBody> {
    prop_oneof![
        2 => (extra(), opt(0.2, octet(20)), opt(0.4, octet(20)), octet(20), octet(20), opt(0.5, ctime()), opt(0.3, cuint(1, 1)))
            .prop_map(|(list_extra, codepage, client_id, req_file_id, server_id, ref_time, sml_version)| CBody::Open { list_extra, codepage, client_id, req_file_id, server_id, ref_time, sml_version }),
        2 => (extra(), opt(0.3, octet(40))).prop_map(|(list_extra, sig)| CBody::Close { list_extra, sig }),
        5 => (extra(), opt(0.3, octet(20)), octet(20), opt(0.5, octet(20)), opt(0.5, ctime()), extra(), entries(tier_big), opt(0.3, octet(40)), opt(0.3, ctime()))
            .prop_map(|(list_extra, client_id, server_id, list_name, act_sensor_time, vals_extra, entries, list_sig, act_gateway_time)| CBody::GetList {
                list_extra, client_id, server_id, list_name, act_sensor_time, vals_extra, entries, list_sig, act_gateway_time,
            }),
    ]
}

pub fn cmsg(tier_big: bool) -> impl Strategy<Value = CMsg> {
    (extra(), octet(20), cuint(1, 1), cuint(1, 1), extra(), 2u8..5, extra(), cbody(tier_big), any::<bool>(), extra())
        .prop_map(|(list_extra, transaction_id, group_no, abort_on_error, body_list_extra, tag_width, tag_extra, body, crc_short, crc_extra)| CMsg {
            list_extra, transaction_id, group_no, abort_on_error, body_list_extra, tag_width, tag_extra, body, crc_short, crc_extra,
        })
}

pub fn cfile(tier_big: bool) -> impl Strategy<Value = CFile> {
    let n = if tier_big { 0..9usize } else { 0..5usize };
    vec(cmsg(tier_big), n).prop_map(|msgs| CFile { msgs })
}

/// A typical meter transmission: open, get-list, close.
pub fn cfile_typical() -> impl Strategy<Value = CFile> {
    (cmsg(false), cmsg(false), cmsg(false)).prop_map(|(a, b, c)| CFile { msgs: vec![a, b, c] })
}

// ---------------------------------------------------------------------------------------
// classification helpers for evidence
// ---------------------------------------------------------------------------------------

pub fn classify_file(f: &CFile, out: &mut Vec<String>) -> bool {
    // returns non-trivial: a get-list message with >= 1 entry and at least one non-minimal
    // TLF, multi-byte TLF, shortened integer or workaround time
    let mut has_list_entry = false;
    let mut special = false;
    out.push(format!("msgs:{}", f.msgs.len().min(5)));
    for m in &f.msgs {
        if m.list_extra > 0 || m.transaction_id.extra > 0 || m.tag_extra > 0 || m.crc_extra > 0 || m.body_list_extra > 0 {
            special = true;
            out.push("enc:non-minimal-tlf".into());
        }
        if m.tag_width != 2 {
            out.push(format!("enc:body-tag-width-{}", m.tag_width));
        }
        if m.transaction_id.data.len() >= 15 {
            special = true;
            out.push("enc:multi-byte-tlf".into());
        }
        match &m.body {
            CBody::Open { ref_time, .. } => {
                out.push("body:open".into());
                if let Some(CTime::Bare { .. }) = ref_time {
                    special = true;
                    out.push("time:workaround".into());
                }
            }
            CBody::Close { .. } => out.push("body:close".into()),
            CBody::GetList { entries, act_sensor_time, act_gateway_time, .. } => {
                out.push("body:getlist".into());
                out.push(format!("entries:{}", match entries.len() {
                    0 => "0",
                    1..=15 => "1-15",
                    16..=255 => "16-255",
                    _ => ">=256",
                }));
                if entries.len() >= 16 {
                    special = true;
                }
                for t in [act_sensor_time, act_gateway_time].into_iter().flatten() {
                    if let CTime::Bare { .. } = t {
                        special = true;
                        out.push("time:workaround".into());
                    }
                }
                for e in entries {
                    has_list_entry = true;
                    if e.list_extra > 0 || e.obj_name.extra > 0 {
                        special = true;
                    }
                    match &e.value {
                        CValue::Bool(_) => out.push("value:bool".into()),
                        CValue::Bytes(o) => {
                            out.push("value:bytes".into());
                            if o.data.len() >= 15 || o.extra > 0 {
                                special = true;
                            }
                        }
                        CValue::Int(i) => {
                            out.push(format!("value:int-w{}", i.width));
                            if !matches!(i.width, 1 | 2 | 4 | 8) || i.extra > 0 {
                                special = true;
                            }
                        }
                        CValue::Uint(u) => {
                            out.push(format!("value:uint-w{}", u.width));
                            if !matches!(u.width, 1 | 2 | 4 | 8) || u.extra > 0 {
                                special = true;
                            }
                        }
                        CValue::ListTime { .. } => {
                            out.push("value:list-time".into());
                            special = true;
                        }
                    }
                    if let Some(s) = &e.status {
                        out.push(format!("status:w{}", s.width));
                    }
                    if let Some(CTime::Bare { .. }) = &e.val_time {
                        special = true;
                        out.push("time:workaround".into());
                    }
                }
            }
        }
    }
    out.sort();
    out.dedup();
    has_list_entry && special
}

#[cfg(test)]
mod tests {
    use super::*;
    use proptest::strategy::ValueTree;
    use proptest::test_runner::TestRunner;
    #[test]
    fn generated_files_roundtrip_through_reference_reader() {
        std::thread::Builder::new()
            .stack_size(256 << 20)
            .spawn(|| {
                let mut runner = TestRunner::deterministic();
                let s = cfile(true);
                for _ in 0..300 {
                    let f = s.new_tree(&mut runner).unwrap().current();
                    let w = write(&f);
                    let r = read_file(&w.bytes).unwrap_or_else(|e| panic!("reference reader rejects writer output: {:?}\n{:?}", e, f));
                    assert_eq!(r, f.abstract_());
                }
            })
            .unwrap()
            .join()
            .unwrap();
    }
}
