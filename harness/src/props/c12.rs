//! C12 - type-length fields and primitive values are decoded exactly or rejected.

use crate::engine::{Fail, Obs, Prop, Tier};
use crate::ensure;
use crate::props::parsers::*;
use crate::refmodel::sml::*;
use crate::util::{hex_short, Kv};
use proptest::collection::vec;
use proptest::prelude::*;

pub struct C12;

/// Grammar positions at which a field is observed.
pub const POS_NAMES: [&str; 8] = ["transaction-id", "value-list", "value", "status", "unit", "scaler", "val-time", "time-tag"];

#[derive(Debug, Clone)]
pub struct Input {
    pub pos: u8,
    /// the type-length field under test (raw bytes; may be malformed or incomplete)
    pub field: Vec<u8>,
    /// bytes placed directly after the field (its data, if any)
    pub data: Vec<u8>,
    pub fix: bool,
}

#[derive(Debug, Clone)]
pub enum DataSpec {
    /// exactly as many bytes as the low 32 bits of the declared length say (if <= 600)
    Consistent { lead: u8, seed: u64, delta: i8 },
    None,
}

#[derive(Debug, Clone)]
pub enum Case {
    /// TLF from a nibble pattern
    Tlf { pos: u8, ty: u8, raw: u64, nibbles: u16, cont_bits: Option<(u8, u8)>, more_on_last: bool, data: DataSpec, fix: bool, high: Option<(u8, u16)> },
    /// integer of `width` bytes (0..=9) at a numeric position
    Num { pos: u8, signed: bool, width: u8, lead: u8, rest: u64, extra: u8, fix: bool },
    /// boolean byte
    Bool { tlf: u8, byte: u8 },
    /// raw bytes as field
    Raw { pos: u8, field: Vec<u8>, fix: bool },
}

const DEFAULT_ENTRY: [u8; 9] = [0x77, 0x01, 0x01, 0x01, 0x01, 0x01, 0x62, 0x00, 0x01];

/// Builds a one-message file (a get-list response with one entry, or n default entries when
/// the value-list field declares n <= 3) with the field under test at position `pos`.
pub fn build(i: &Input) -> Vec<u8> {
    let mut fd = i.field.clone();
    fd.extend_from_slice(&i.data);
    let mut b = vec![0x76];
    if i.pos == 0 {
        b.extend_from_slice(&fd);
    } else {
        b.push(0x01);
    }
    b.extend_from_slice(&[0x62, 0x00, 0x62, 0x00, 0x72, 0x63, 0x07, 0x01, 0x77, 0x01, 0x01, 0x01, 0x01]);
    if i.pos == 1 {
        b.extend_from_slice(&fd);
        // supply the entries an honest small list announces
        if let Ok(t) = read_tlf(&i.field, 0) {
            if t.ty == TY_LIST && t.nbytes == i.field.len() && t.len <= 3 {
                for _ in 0..t.len {
                    b.extend_from_slice(&DEFAULT_ENTRY);
                }
            }
        }
    } else {
        b.push(0x71);
        b.extend_from_slice(&[0x77, 0x01]);
        for p in [3u8, 6, 4, 5] {
            // status, val_time, unit, scaler
            if i.pos == p {
                b.extend_from_slice(&fd);
            } else if i.pos == 7 && p == 6 {
                // the field under test is the choice tag of the entry's time: 72 <tag> <seconds>
                b.push(0x72);
                b.extend_from_slice(&fd);
                b.extend_from_slice(&[0x65, 0x00, 0x00, 0x00, 0x2a]);
            } else {
                b.push(0x01);
            }
        }
        if i.pos == 2 {
            b.extend_from_slice(&fd);
        } else {
            b.extend_from_slice(&[0x62, 0x00]);
        }
        b.push(0x01);
    }
    b.extend_from_slice(&[0x01, 0x01, 0x63, 0x00, 0x00, 0x00]);
    if i.fix {
        fix_crcs(&mut b);
        fix_crcs_scan(&mut b);
    }
    b
}

fn data_for(field: &[u8], spec: &DataSpec) -> Vec<u8> {
    match spec {
        DataSpec::None => vec![],
        DataSpec::Consistent { lead, seed, delta } => {
            // what a reader that keeps only the low 32 bits would take as the data length
            let mut raw: u64 = 0;
            let mut n = 0u64;
            for (k, b) in field.iter().enumerate() {
                raw = (raw << 4 | (*b & 0x0f) as u64) & 0xffff_ffff;
                n = k as u64 + 1;
                if b & 0x80 == 0 {
                    break;
                }
            }
            let ty = (field[0] >> 4) & 7;
            let len = if ty == TY_LIST { 0 } else { raw.wrapping_sub(n) & 0xffff_ffff };
            let len = (len as i64 + *delta as i64).max(0) as u64;
            // data for fields that honestly announce up to ~2^16 bytes is supplied in one case out of four
            if len > 600 && !(len <= 70_000 && *seed % 4 == 0) {
                return vec![];
            }
            let mut d = Vec::with_capacity(len as usize);
            crate::gen::payload::fill(0, *seed, len as usize, &mut d);
            if let Some(f) = d.first_mut() {
                *f = *lead;
            }
            d
        }
    }
}

pub fn eval_input(i: &Input, obs: &mut Obs) -> Result<(), Fail> {
    let x = build(i);
    let r = read_events(&x, true);
    let s = run_streaming(&x, 0);
    let ctx = || format!("field {} (+{} data bytes {}) at position {} -> input {}", hex_short(&i.field, 16), i.data.len(), hex_short(&i.data, 12), POS_NAMES[i.pos as usize % 8], hex_short(&x, 120));
    ensure!(!s.cap_exceeded, "streaming-endless", "streaming parser did not finish; {}", ctx());
    let same_prefix = s.events == r.events;
    let sig = match &r.reject {
        Some(j) if !same_prefix || s.err.is_none() => format!("rejected-field-used:{}", j.kind.label()),
        _ => "field-decoded-wrongly".to_string(),
    };
    ensure!(
        same_prefix && s.err.is_some() == r.reject.is_some(),
        sig,
        "{}\nstreaming parser yields {} err={:?}\nthe SML rule yields        {} reject={:?}",
        ctx(),
        show_events(&s.events),
        s.err,
        show_events(&r.events),
        r.reject
    );
    let c = run_complete(&x);
    match &r.reject {
        None => {
            let file = assemble(&r.events).expect("assembles");
            ensure!(c.as_ref().ok() == Some(&file), "field-decoded-wrongly-complete", "{}\ncomplete::parse returns {:?}\nthe SML rule yields {:?}", ctx(), c, file);
            obs.class("verdict:accept");
        }
        Some(j) => {
            ensure!(c.is_err(), format!("rejected-field-used-complete:{}", j.kind.label()), "{}\nthe SML rule rejects ({} at {}), complete::parse returns {:?}", ctx(), j.kind.label(), j.at, c);
            obs.class(format!("verdict:reject:{}", j.kind.label()));
        }
    }
    // classification
    let tlf_len = {
        let mut n = 0;
        for b in &i.field {
            n += 1;
            if b & 0x80 == 0 {
                break;
            }
        }
        n
    };
    obs.class(format!("pos:{}", POS_NAMES[i.pos as usize % 8]));
    obs.class(format!("tlf-bytes:{}", tlf_len.min(12)));
    if let Some(b0) = i.field.first() {
        obs.class(format!("type-bits:{:03b}", (b0 >> 4) & 7));
    }
    let boundary_lead = matches!(i.data.first(), Some(0x00 | 0x01 | 0x7f | 0x80 | 0xfe | 0xff));
    let is_num = matches!(i.field.first().map(|b| (b >> 4) & 7), Some(TY_INT | TY_UINT));
    if is_num && !i.data.is_empty() {
        obs.class(format!("int-width:{}", i.data.len().min(9)));
    }
    obs.nontrivial_if(tlf_len >= 2 || (is_num && boundary_lead));
    Ok(())
}

fn exh_len(tier: Tier) -> usize {
    tier.pick(2, 3)
}

impl Prop for C12 {
    const ID: &'static str = "C12";
    const RULE: &'static str = "fields placed at eight grammar positions of a one-message file (the choice tag of an entry's time = one-byte unsigned context, transaction id = octet context, value-list TLF = list context visible as num_vals before any entry or CRC is read, list-entry value = integer / unsigned / boolean / octet / list context, status, unit, scaler, value time), followed by their data and template bytes, with checksum fix-up. Exhaustive: every byte sequence of length 1..2 (thorough 1..3) as field at the first three positions. Generated: TLFs of 1..12 bytes (occasionally up to 40, ~256 or ~512 bytes, i.e. beyond any 8-bit byte counter) from nibble patterns (leading zero nibbles, all-F, 2^32-1, 2^32, 2^32+small, values whose low 32 bits equal the length of the data actually supplied, one extra non-zero 4-bit group 8..47 groups before the end of the field (worth 2^32 .. beyond 2^64 and 2^128, the field lengthened as needed), reserved type bits in first / continuation bytes, more-bit on the last byte), integers of width 0..9 x signedness x leading byte {00,01,7f,80,fe,ff,random} x random rest x 0..3 extra TLF bytes, all 256 boolean bytes. Oracle: the reference event reader R3 vs the streaming parser's events (fields are visible there before the message CRC is checked) and, for the whole message, vs complete::parse: a value => identical event; a rejection (negative length, > 32 bits, reserved bits, wrong type for the position, missing bytes) => an error, never an event built from a wrapped or truncated length. Non-trivial: the TLF spans >= 2 bytes, or an integer whose leading byte is a boundary value. Distinct = distinct (position, field, data).";
    type Case = Case;
    type Input = Input;

    fn budget(tier: Tier) -> u64 {
        tier.pick(1_500_000, 10_000_000)
    }

    fn strategy(_tier: Tier) -> BoxedStrategy<Case> {
        let raw = prop_oneof![
            6 => 0u64..40,
            2 => prop_oneof![Just(0xffu64), Just(0x100), Just(0xfff), Just(0xffff), Just(0x10000)],
            3 => prop_oneof![Just(0xffff_fffeu64), Just(0xffff_ffff), Just(0x7fff_ffff), Just(0x8000_0000)],
            4 => prop_oneof![Just(1u64 << 32), Just((1u64 << 32) + 1), Just((1u64 << 32) + 15), (0u64..40).prop_map(|x| (1u64 << 32) + x), (1u64..0xffff).prop_map(|h| h << 32), ((1u64..0xffff), 0u64..40).prop_map(|(h, l)| (h << 32) + l)],
            2 => any::<u32>().prop_map(|x| x as u64),
            1 => (1u64 << 32)..(1u64 << 48),
        ];
        let data = prop_oneof![
            5 => (prop_oneof![Just(0u8), Just(1u8), Just(0x7fu8), Just(0x80u8), Just(0xffu8), any::<u8>()], any::<u64>(), prop_oneof![6 => Just(0i8), 1 => Just(-1i8), 1 => Just(1i8)]).prop_map(|(lead, seed, delta)| DataSpec::Consistent { lead, seed, delta }),
            1 => Just(DataSpec::None),
        ];
        let tlf = (0u8..8, prop_oneof![8 => prop_oneof![Just(0u8), Just(4u8), Just(5u8), Just(6u8), Just(7u8)], 1 => 0u8..8], raw, prop_oneof![30 => 0u16..5, 2 => 5u16..40, 1 => 244u16..262, 1 => 500u16..520], prop::option::weighted(0.08, (0u8..12, 1u8..8)), prop::bool::weighted(0.05), data, prop::bool::weighted(0.8), prop::option::weighted(0.12, (1u8..16, prop_oneof![3 => 8u16..10, 3 => 15u16..18, 2 => 31u16..34, 2 => 8u16..48])))
            .prop_map(|(pos, ty, raw, extra, cont_bits, more_on_last, data, fix, high)| {
                let mut need = 1u16;
                let mut v = raw >> 4;
                while v > 0 {
                    need += 1;
                    v >>= 4;
                }
                Case::Tlf { pos, ty, raw, nibbles: if extra < 5 { (need + extra).min(12) } else { need + extra }, cont_bits, more_on_last, data, fix, high }
            });
        let num = (prop_oneof![Just(2u8), Just(3u8), Just(4u8), Just(5u8), Just(6u8), Just(7u8)], any::<bool>(), 0u8..10, prop_oneof![Just(0u8), Just(1u8), Just(0x7fu8), Just(0x80u8), Just(0xfeu8), Just(0xffu8), any::<u8>()], any::<u64>(), prop_oneof![6 => Just(0u8), 2 => 1u8..4], prop::bool::weighted(0.8))
            .prop_map(|(pos, signed, width, lead, rest, extra, fix)| Case::Num { pos, signed, width, lead, rest, extra, fix });
        let boolean = (prop_oneof![8 => Just(0x42u8), 1 => Just(0x41u8), 1 => Just(0x43u8)], any::<u8>()).prop_map(|(tlf, byte)| Case::Bool { tlf, byte });
        let rawf = (0u8..8, vec(any::<u8>(), 1..6), any::<bool>()).prop_map(|(pos, field, fix)| Case::Raw { pos, field, fix });
        prop_oneof![5 => tlf, 4 => num, 1 => boolean, 1 => rawf].boxed()
    }

    fn lower(c: &Case) -> Input {
        match c {
            Case::Tlf { pos, ty, raw, nibbles, cont_bits, more_on_last, data, fix, high } => {
                // `high`: one more non-zero 4-bit group d groups before the end (d >= 8, i.e. worth 2^32 or more -
                // also beyond 2^64 and 2^128, where a wider accumulator would wrap), the field being lengthened as needed
                let nbytes = match high {
                    Some((_, d)) => (*nibbles as usize).max(*d as usize + 1),
                    None => *nibbles as usize,
                };
                let mut field = tlf_bytes(*ty, *raw, nbytes);
                if let Some((nib, d)) = high {
                    field[nbytes - 1 - *d as usize] |= *nib & 0x0f;
                }
                if let Some((k, bits)) = cont_bits {
                    let k = *k as usize % field.len();
                    if k > 0 {
                        field[k] |= (bits & 7) << 4;
                    }
                }
                if *more_on_last {
                    let l = field.len();
                    field[l - 1] |= 0x80;
                }
                let d = data_for(&field, data);
                Input { pos: *pos, field, data: d, fix: *fix }
            }
            Case::Num { pos, signed, width, lead, rest, extra, fix } => {
                let ty = if *signed { TY_INT } else { TY_UINT };
                let field = prim_tlf(ty, *width as usize, *extra);
                let mut d = rest.to_be_bytes().to_vec();
                d.push(0x55);
                d.truncate(*width as usize);
                if let Some(f) = d.first_mut() {
                    *f = *lead;
                }
                if *pos == 7 && *lead <= 1 && !d.is_empty() {
                    // at the tag position: the one value the choice knows (1), in `width` bytes
                    for x in d.iter_mut() {
                        *x = 0;
                    }
                    let l = d.len();
                    d[l - 1] = 1;
                }
                Input { pos: *pos, field, data: d, fix: *fix }
            }
            Case::Bool { tlf, byte } => Input { pos: 2, field: vec![*tlf], data: vec![*byte], fix: true },
            Case::Raw { pos, field, fix } => Input { pos: *pos, field: field.clone(), data: vec![], fix: *fix },
        }
    }

    fn eval(i: &Input, obs: &mut Obs) -> Result<(), Fail> {
        eval_input(i, obs)
    }

    fn to_kv(i: &Input) -> Kv {
        let mut kv = Kv::new();
        kv.put_u("pos", i.pos as u64).put_b("field", &i.field).put_b("data", &i.data).put_u("fix", i.fix as u64);
        kv
    }

    fn from_kv(kv: &Kv) -> Result<Input, String> {
        let pos = kv.get_u("pos")? as u8;
        if pos > 7 {
            return Err("pos out of range".into());
        }
        let field = kv.get_b("field")?;
        if field.is_empty() {
            return Err("empty field".into());
        }
        Ok(Input { pos, field, data: kv.get_b("data")?, fix: kv.get_u("fix")? != 0 })
    }

    fn exhaustive_desc(tier: Tier) -> String {
        let l = exh_len(tier);
        let n: u64 = (1..=l).map(|k| 256u64.pow(k as u32)).sum();
        format!("every byte sequence of length 1..={} as field at the positions transaction-id, value-list and value ({} x 3 inputs), each followed by the data bytes its declared length asks for (when it decodes and is <= 600) and the rest of the message, checksum fixed up; all 256 boolean bytes", l, n)
    }

    fn exhaustive(tier: Tier, shard: usize, nshards: usize, f: &mut dyn FnMut(&Input) -> bool) {
        let l = exh_len(tier);
        let mut g = 0u64;
        for len in 1..=l {
            let count = 256u64.pow(len as u32);
            for k in 0..count {
                if g % nshards as u64 == shard as u64 {
                    let field: Vec<u8> = (0..len).map(|j| ((k >> (8 * (len - 1 - j))) & 0xff) as u8).collect();
                    for pos in 0..3u8 {
                        let data = data_for(&field, &DataSpec::Consistent { lead: [0x00, 0x7f, 0x80, 0xff][(k % 4) as usize], seed: k, delta: 0 });
                        if !f(&Input { pos, field: field.clone(), data, fix: true }) {
                            return;
                        }
                    }
                }
                g += 1;
            }
        }
        for b in 0..=255u8 {
            if b as usize % nshards == shard && !f(&Input { pos: 2, field: vec![0x42], data: vec![b], fix: true }) {
                return;
            }
        }
    }
}
