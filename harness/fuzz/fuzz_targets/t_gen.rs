#![no_main]
// generator-driven target: bytes -> the property's own proptest strategy (property chosen by VERIF_FUZZ_PROP)
libfuzzer_sys::fuzz_target!(|data: &[u8]| {
    smlverif::fuzz::gen_entry(data);
});
