//! One module per property.
pub mod c01;
pub mod c07;

use crate::engine::{run, Opts};

pub const ALL: &[&str] = &["C01", "C07"];

pub fn dispatch(id: &str, opts: &Opts) -> i32 {
    match id {
        "C01" => run::<c01::C01>(opts),
        "C07" => run::<c07::C07>(opts),
        other => {
            eprintln!("unknown property {other}");
            2
        }
    }
}
