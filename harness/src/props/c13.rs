//! C13 - the streaming parser terminates: at most one error, then None forever.

use crate::engine::{Fail, Obs, Prop, Tier};
use crate::ensure;
use crate::gen::mutate::PMut;
use crate::gen::pinput::*;
use crate::gen::smlfile::cfile_typical;
use crate::props::parsers::*;
use crate::util::{hex_short, Kv};
use proptest::prelude::*;

pub struct C13;

#[derive(Debug, Clone)]
pub struct Case {
    pub p: PCase,
    pub k: usize,
}

#[derive(Debug, Clone)]
pub struct Input {
    pub p: PInput,
    pub k: usize,
}

pub fn eval_bytes(x: &[u8], how: &str, k: usize, obs: &mut Obs) -> Result<(), Fail> {
    let s = run_streaming(x, k);
    ensure!(
        !s.cap_exceeded,
        "iteration-does-not-end",
        "iterating the streaming parser over {} input bytes yielded more than {} items without reaching None ({} events so far)\ninput ({}) = {}",
        x.len(),
        x.len() + 1,
        s.events.len(),
        how,
        hex_short(x, 200)
    );
    ensure!(s.items <= x.len() + 1, "too-many-items", "{} items for {} input bytes", s.items, x.len());
    if let Some((call, what)) = &s.resumed {
        return Err(Fail::new(
            if s.err.is_some() { "item-after-error" } else { "item-after-none" },
            format!(
                "after {} (preceded by {} events) call #{} of next() returned {} instead of None\ninput ({}) = {}",
                match &s.err {
                    Some(e) => format!("Err({:?})", e),
                    None => "None".to_string(),
                },
                s.events.len(),
                call,
                what,
                how,
                hex_short(x, 200)
            ),
        ));
    }
    match &s.err {
        Some(e) => {
            obs.class(format!("error:{}", kind_label(e)));
            obs.class(format!("events-before-error:{}", s.events.len().min(4)));
        }
        None => obs.class("ends-with-none"),
    }
    obs.nontrivial_if(s.err.is_some() && !s.events.is_empty());
    Ok(())
}

impl Prop for C13 {
    const ID: &'static str = "C13";
    const RULE: &'static str = "inputs as C09, weighted towards failures after at least one event: a valid three-message file with one checksum byte damaged, a wrong end marker, a truncation, or a list count raised by one; G5 mutations with / without checksum fix-up; real payloads; random bytes; k in 1..16 further calls. Oracle: next() is called at most |x|+2 times: at most |x|+1 items, and after the first Err or None the k further calls all return None. Non-trivial: the iteration yields >= 1 Ok event and then an Err. Distinct = distinct (bytes, k).";
    type Case = Case;
    type Input = Input;

    fn budget(tier: Tier) -> u64 {
        tier.pick(200_000, 5_000_000)
    }

    fn strategy(tier: Tier) -> BoxedStrategy<Case> {
        let focused = (
            cfile_typical(),
            prop_oneof![
                (any::<u16>(), 1u8..=255).prop_map(|(i, v)| PMut::CrcByte(i, v)),
                (any::<u16>(), 1u8..=255).prop_map(|(i, v)| PMut::EndMarker(i, v)),
                any::<u16>().prop_map(PMut::Truncate),
                any::<u16>().prop_map(|i| PMut::ListArity(i, true)),
            ],
        )
            .prop_map(|(file, m)| PCase::Mutated { file, muts: vec![m], fix: false });
        let p = prop_oneof![2 => focused, 3 => pcase(tier == Tier::Thorough, (1, 8, 3, 1))];
        (p, 1usize..17).prop_map(|(p, k)| Case { p, k }).boxed()
    }

    fn lower(c: &Case) -> Input {
        Input { p: lower(&c.p), k: c.k }
    }

    fn eval(i: &Input, obs: &mut Obs) -> Result<(), Fail> {
        obs.class(i.p.origin_class());
        eval_bytes(&i.p.bytes, &i.p.how, i.k, obs)
    }

    fn to_kv(i: &Input) -> Kv {
        let mut kv = i.p.to_kv();
        kv.put_u("k", i.k as u64);
        kv
    }

    fn from_kv(kv: &Kv) -> Result<Input, String> {
        Ok(Input { p: PInput::from_kv(kv)?, k: kv.get_u("k")? as usize })
    }
}
