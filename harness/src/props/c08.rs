//! C08 - resynchronisation: a valid frame after noise or a cut-off frame is delivered.

use crate::drive::{self, BufKind, Ev, Poll, VecK};
use crate::engine::caps::{cap_at_least, pick, CAPS};
use crate::engine::{Fail, Obs, Prop, Tier};
use crate::gen::payload::*;
use crate::gen::stream::{noise, Noise};
use crate::refmodel::transport::{noise_admissible, ref_frame, ref_frame_struct};
use crate::util::{hex_short, Kv};
use crate::{ensure, with_cap};
use proptest::prelude::*;
use sml_rs::transport::{DecodeErr, Decoder};

pub struct C08;

#[derive(Debug, Clone)]
pub enum Hist {
    New,
    AfterFrame(SizedPayload),
    /// frame whose checksum byte is damaged
    AfterInvalidMsg(SizedPayload),
    /// start sequence, some data and an unknown escape payload
    AfterInvalidEsc(Vec<u8>, [u8; 4]),
    /// fixed buffer too small for the first frame
    AfterOom,
    /// a partial frame, then reset() (1) or finalize() (2)
    Partial(SizedPayload, u16, u8),
    /// noise only, then reset()/finalize()
    NoiseThen(Noise, u8),
}

#[derive(Debug, Clone)]
pub enum Case {
    Noise { hist: Hist, g: Noise, m: SizedPayload, fixed: bool, cap_sel: u16 },
    Cut { m1: SizedPayload, k: u16, m2: SizedPayload, fixed: bool },
}

#[derive(Debug, Clone)]
pub enum Input {
    Noise { prefix: Vec<u8>, after: u8, cap: Option<usize>, noise: Vec<u8>, payload: Vec<u8> },
    /// `cap`: None = growable buffer, Some(n) = ArrayBuf<n> with n >= max(|m1|, |m2|)
    Cut { m1: Vec<u8>, k: usize, m2: Vec<u8>, cap: Option<usize> },
}

fn noise_part<K: BufKind>(prefix: &[u8], after: u8, g: &[u8], m: &[u8], obs: &mut Obs) -> Result<bool, Fail> {
    let who = format!("Decoder<{}<{}>>", K::NAME, K::CAP);
    let mut dec = Decoder::<K::B>::new();
    let mut pre = Vec::new();
    drive::push_all(&mut dec, prefix, 0, &mut pre);
    match after {
        1 => {
            dec.reset();
        }
        2 => {
            dec.finalize();
        }
        _ => {
            // the history must end exactly at a boundary event, otherwise the decoder is not idle
            if !prefix.is_empty() {
                let idle = match pre.last() {
                    Some((c, Ev::Msg(_))) => *c == prefix.len(),
                    Some((c, Ev::Err(DecodeErr::DiscardedBytes(_)))) => {
                        let _ = c;
                        false
                    }
                    Some((c, Ev::Err(_))) => *c == prefix.len(),
                    _ => false,
                };
                if !idle {
                    obs.class("precondition-miss:history-not-idle");
                    return Ok(false);
                }
            }
        }
    }
    let frame = ref_frame(m);
    let mut tail = g.to_vec();
    tail.extend_from_slice(&frame);
    let mut evs = Vec::new();
    drive::push_all(&mut dec, &tail, 0, &mut evs);
    let mut expect = Vec::new();
    if !g.is_empty() {
        expect.push((g.len() + 8, Ev::Err(DecodeErr::DiscardedBytes(g.len()))));
    }
    expect.push((tail.len(), Ev::Msg(m.to_vec())));
    let sig = if g.last() == Some(&0x1b) || crate::gen::stream::Noise::suffix_class(g).starts_with("noise:..1b1b1b1b0") {
        "frame-after-noise-ending-in-partial-start-lost"
    } else if g.len() >= 65536 {
        "frame-after-long-noise-misreported"
    } else {
        "frame-after-noise-lost"
    };
    // The property fixes the *sequence* of results and (with C01) that the payload comes with the
    // frame's last byte; at which byte the discarded-bytes report is raised is C17's business.
    let same_seq = evs.len() == expect.len() && evs.iter().zip(expect.iter()).all(|(a, b)| a.1 == b.1) && evs.last().map(|e| e.0) == expect.last().map(|e| e.0);
    ensure!(
        same_seq,
        sig,
        "{who}, idle after history [{} bytes{}]: noise {} ({} bytes) followed by the frame of payload {} yields {}; expected {}",
        prefix.len(),
        match after {
            1 => " + reset()",
            2 => " + finalize()",
            _ => "",
        },
        hex_short(g, 40),
        g.len(),
        hex_short(m, 32),
        drive::show_pos(&evs),
        drive::show_pos(&expect)
    );
    ensure!(dec.finalize().is_none(), "finalize-after-delivered-frame", "{who}: finalize() after the delivered frame reports leftover bytes");
    Ok(true)
}

fn tail_matches(all: &[Ev], n_prefix: usize, expect: &[Ev]) -> bool {
    all.len() == n_prefix + expect.len() && all[n_prefix..] == *expect
}

pub fn eval_input(i: &Input, obs: &mut Obs) -> Result<(), Fail> {
    match i {
        Input::Noise { prefix, after, cap, noise, payload } => {
            if !noise_admissible(noise) {
                obs.class("precondition-miss:noise-contains-start");
                return Ok(());
            }
            let ok = match cap {
                None => noise_part::<VecK>(prefix, *after, noise, payload, obs)?,
                Some(n) => with_cap!(*n, K => noise_part::<K>(prefix, *after, noise, payload, obs))?,
            };
            if !ok {
                return Ok(());
            }
            // decode() and SmlReader::next see the same bytes (only when no reset()/finalize() call is part of the history)
            if *after == 0 && cap.is_none() {
                let mut s = prefix.clone();
                s.extend_from_slice(noise);
                s.extend_from_slice(&ref_frame(payload));
                let n_prefix = drive::decode_fn(prefix).len();
                let mut expect = Vec::new();
                if !noise.is_empty() {
                    expect.push(Ev::Err(DecodeErr::DiscardedBytes(noise.len())));
                }
                expect.push(Ev::Msg(payload.clone()));
                let d = drive::decode_fn(&s);
                ensure!(tail_matches(&d, n_prefix, &expect), "frame-after-noise-lost-decode", "decode(history ++ noise {} ++ frame) = {}; expected it to end with {}", hex_short(noise, 40), drive::show(&d), drive::show(&expect));
                let r = drive::reader_slice::<VecK>(&s, Poll::Next, 1).map_err(|m| Fail::new("reader-step-cap", m))?;
                let mut e2 = expect.clone();
                e2.push(Ev::End);
                ensure!(tail_matches(&r, n_prefix, &e2), "frame-after-noise-lost-reader", "SmlReader::next over (history ++ noise {} ++ frame) = {}; expected it to end with {}", hex_short(noise, 40), drive::show(&r), drive::show(&e2));
            }
            obs.class(Noise::suffix_class(noise));
            obs.class(match (prefix.is_empty(), after) {
                (true, 0) => "history:new".to_string(),
                (_, 1) => "history:reset".to_string(),
                (_, 2) => "history:finalize".to_string(),
                _ => "history:after-event".to_string(),
            });
            if cap.is_some() {
                obs.class("buffer:fixed");
            }
            if noise.len() >= 65536 {
                obs.class("noise:>=65536");
            }
            let sc = Noise::suffix_class(noise);
            obs.nontrivial_if(sc != "noise:plain" && sc != "noise:empty");
            Ok(())
        }
        Input::Cut { m1, k, m2, cap } => {
            let f1 = ref_frame_struct(m1);
            if !f1.cut_admissible(*k) {
                obs.class("precondition-miss:cut-not-admissible");
                return Ok(());
            }
            let f2 = ref_frame(m2);
            let mut s = f1.bytes[..*k].to_vec();
            s.extend_from_slice(&f2);
            let expect = vec![(*k + 8, Ev::Err(DecodeErr::DiscardedBytes(*k))), (s.len(), Ev::Msg(m2.clone()))];
            let (evs, fin) = match cap {
                None => drive::push_decoder::<VecK>(&s),
                Some(n) => with_cap!(*n, K => drive::push_decoder::<K>(&s)),
            };
            if cap.is_some() {
                obs.class("cut-frame:fixed-buffer");
            }
            let same_seq = evs.len() == expect.len() && evs.iter().zip(expect.iter()).all(|(a, b)| a.1 == b.1) && evs.last().map(|e| e.0) == expect.last().map(|e| e.0);
            ensure!(
                same_seq && fin.is_none(),
                "frame-after-cut-frame-lost",
                "frame of {} cut after {} of {} bytes (phase {}), followed by the frame of {}: push decoder yields {} (finalize {:?}); expected {}",
                hex_short(m1, 32),
                k,
                f1.bytes.len(),
                f1.phase_at(*k - 1),
                hex_short(m2, 32),
                drive::show_pos(&evs),
                fin,
                drive::show_pos(&expect)
            );
            let flat: Vec<Ev> = expect.iter().map(|x| x.1.clone()).collect();
            let d = drive::decode_fn(&s);
            ensure!(d == flat, "frame-after-cut-frame-lost-decode", "decode(cut frame ++ frame) = {}; expected {}", drive::show(&d), drive::show(&flat));
            let r = drive::reader_iter::<VecK>(&s, Poll::Next, 1).map_err(|m| Fail::new("reader-step-cap", m))?;
            let mut e2 = expect.clone();
            e2.push((s.len(), Ev::End));
            ensure!(r.len() == e2.len() && r.iter().zip(e2.iter()).all(|(a, b)| a.1 == b.1), "frame-after-cut-frame-lost-reader", "SmlReader::next over (cut frame ++ frame) = {}; expected {}", drive::show_pos(&r), drive::show_pos(&e2));
            obs.class("cut-frame");
            obs.class(format!("cut-phase:{}", f1.phase_at(*k - 1)));
            obs.nontrivial();
            Ok(())
        }
    }
}

impl Prop for C08 {
    const ID: &'static str = "C08";
    const RULE: &'static str = "family 1: idle history (new; after a delivered frame; after InvalidMessage; after InvalidEsc; after OutOfMemory with a small ArrayBuf; partial frame or noise then reset()/finalize()) x G3 noise g (token noise with forced suffix classes: none, 1..12 x 0x1b, 1b1b1b1b01, ..0101, ..010101, end look-alike, runs >= 65536; filtered so that g ++ START contains START only at |g|) x payload m; oracle: the events after the history are exactly [DiscardedBytes(|g|) at the byte completing the start sequence (if |g|>0), Ok(m) at the last byte], also for decode() and SmlReader::next. Family 2: frame(m1)[..k] ++ frame(m2) for admissible cuts k (k >= 8, not inside the end sequence, byte k-1 != 0x1b); oracle: [DiscardedBytes(k), Ok(m2)]. Small cut cases enumerate every admissible k. Non-trivial: noise ends in 0x1b or in a partial start sequence, or a cut frame. Distinct = distinct inputs.";
    type Case = Case;
    type Input = Input;

    fn budget(tier: Tier) -> u64 {
        tier.pick(1_000_000, 8_000_000)
    }

    fn strategy(tier: Tier) -> BoxedStrategy<Case> {
        let max_run = tier.pick(70_000usize, 140_000);
        let hist = prop_oneof![
            3 => Just(Hist::New),
            2 => moderate_payload().prop_map(Hist::AfterFrame),
            2 => moderate_payload().prop_map(Hist::AfterInvalidMsg),
            1 => (proptest::collection::vec(any::<u8>(), 0..6), prop_oneof![Just([2u8, 3, 4, 5]), Just([0x1b, 0x1b, 0x1b, 0x02]), Just([0x1b, 0x1a, 0, 0]), any::<[u8; 4]>()]).prop_map(|(d, e)| Hist::AfterInvalidEsc(d, e)),
            1 => Just(Hist::AfterOom),
            2 => (moderate_payload(), any::<u16>(), 1u8..3).prop_map(|(p, k, a)| Hist::Partial(p, k, a)),
            1 => (noise(300, false), 1u8..3).prop_map(|(n, a)| Hist::NoiseThen(n, a)),
        ];
        let big_noise = prop::bool::weighted(0.02);
        let fam1 = (hist, big_noise, moderate_payload(), prop::bool::weighted(0.3), any::<u16>())
            .prop_flat_map(move |(hist, big, m, fixed, cap_sel)| {
                let g = if big { noise(max_run, true).boxed() } else { noise(300, true).boxed() };
                (Just(hist), g, Just(m), Just(fixed), Just(cap_sel))
            })
            .prop_map(|(hist, g, m, fixed, cap_sel)| Case::Noise { hist, g, m, fixed, cap_sel });
        let fam2 = (moderate_payload(), any::<u16>(), moderate_payload(), prop::bool::weighted(0.4)).prop_map(|(m1, k, m2, fixed)| Case::Cut { m1, k, m2, fixed });
        prop_oneof![3 => fam1, 1 => fam2].boxed()
    }

    fn lower(c: &Case) -> Input {
        match c {
            Case::Noise { hist, g, m, fixed, cap_sel } => {
                let payload = m.bytes();
                let hist_len = match hist {
                    Hist::AfterFrame(p) | Hist::AfterInvalidMsg(p) | Hist::Partial(p, _, _) => p.bytes().len(),
                    Hist::AfterInvalidEsc(d, _) => d.len() + 4,
                    _ => 0,
                };
                let mut cap = if *fixed { cap_at_least(payload.len().max(hist_len)) } else { None };
                let mut noise_pre: Vec<u8> = Vec::new();
                let (prefix, after) = match hist {
                    Hist::New => (vec![], 0),
                    Hist::AfterFrame(p) => {
                        (ref_frame(&p.bytes()), 0)
                    }
                    Hist::AfterInvalidMsg(p) => {
                        let mut f = ref_frame(&p.bytes());
                        let l = f.len();
                        f[l - 1] ^= 0x40;
                        (f, 0)
                    }
                    Hist::AfterInvalidEsc(d, e) => {
                        let mut f = crate::refmodel::transport::START.to_vec();
                        f.extend(d.iter().map(|b| if *b == 0x1b { 0x1c } else { *b }));
                        f.extend_from_slice(&[0x1b; 4]);
                        let mut e = *e;
                        // must be an *unknown* escape payload that cannot be re-aligned
                        if e == [0x1b; 4] || e == [1; 4] || e[0] == 0x1a || e.contains(&0x1a) {
                            e = [2, 3, 4, 5];
                        }
                        f.extend_from_slice(&e);
                        (f, 0)
                    }
                    Hist::AfterOom => {
                        // a frame whose (n+1)-th data byte overflows ArrayBuf<n>; the second payload must fit n
                        let n = cap_at_least(payload.len()).unwrap_or(1025);
                        cap = Some(n);
                        // second shape (every other case, when n is not a multiple of four): an unpadded frame of
                        // L > n bytes ending in t = 1..3 x 0x1b with L - t <= n, so that the buffer overflows while the
                        // withheld 0x1b are written back - which happens inside the end sequence, t bytes before its
                        // end; those t bytes then are noise in front of g
                        let l = (n / 4 + 1) * 4;
                        if payload.len() % 2 == 1 && n % 4 != 0 {
                            let tmin = l - n;
                            let t = tmin + g.bytes().len() % (4 - tmin);
                            let mut data = vec![0x33u8; l - t];
                            data.extend(std::iter::repeat(0x1b).take(t));
                            let f = ref_frame(&data);
                            noise_pre = f[f.len() - t..].to_vec();
                            (f[..f.len() - t].to_vec(), 0)
                        } else {
                            let mut f = crate::refmodel::transport::START.to_vec();
                            f.extend(std::iter::repeat(0x33).take(n + 1));
                            (f, 0)
                        }
                    }
                    Hist::Partial(p, k, a) => {
                        let f = ref_frame(&p.bytes());
                        let k = 1 + pick(*k, f.len() - 1);
                        (f[..k].to_vec(), *a)
                    }
                    Hist::NoiseThen(n, a) => (n.bytes(), *a),
                };
                let _ = cap_sel;
                noise_pre.extend_from_slice(&g.bytes());
                Input::Noise { prefix, after, cap, noise: noise_pre, payload }
            }
            Case::Cut { m1, k, m2, fixed } => {
                let m1 = m1.bytes();
                let f = ref_frame_struct(&m1);
                let adm: Vec<usize> = (8..=f.bytes.len()).filter(|k| f.cut_admissible(*k)).collect();
                let k = if adm.is_empty() { 8 } else { adm[pick(*k, adm.len())] };
                let m2 = m2.bytes();
                let cap = if *fixed { cap_at_least(m1.len().max(m2.len())) } else { None };
                Input::Cut { m1, k, m2, cap }
            }
        }
    }

    fn eval(i: &Input, obs: &mut Obs) -> Result<(), Fail> {
        eval_input(i, obs)
    }

    fn generator_counters() -> Vec<(String, u64)> {
        use std::sync::atomic::Ordering::Relaxed;
        vec![
            ("noise-strings-generated".into(), crate::gen::stream::NOISE_GENERATED.load(Relaxed)),
            ("noise-strings-rejected-by-precondition-filter".into(), crate::gen::stream::NOISE_REJECTED.load(Relaxed)),
        ]
    }

    fn to_kv(i: &Input) -> Kv {
        let mut kv = Kv::new();
        match i {
            Input::Noise { prefix, after, cap, noise, payload } => {
                kv.put("kind", "noise").put_b("prefix", prefix).put_u("after", *after as u64);
                kv.put("cap", cap.map(|c| c.to_string()).unwrap_or_else(|| "none".into()));
                kv.put_b("noise", noise).put_b("payload", payload);
            }
            Input::Cut { m1, k, m2, cap } => {
                kv.put("kind", "cut").put_b("m1", m1).put_u("k", *k as u64).put_b("m2", m2);
                kv.put("cap", cap.map(|c| c.to_string()).unwrap_or_else(|| "none".into()));
            }
        }
        kv
    }

    fn from_kv(kv: &Kv) -> Result<Input, String> {
        match kv.get("kind")? {
            "noise" => {
                let cap = match kv.get("cap")? {
                    "none" => None,
                    s => Some(s.parse::<usize>().map_err(|e| e.to_string())?),
                };
                if let Some(c) = cap {
                    if !CAPS.contains(&c) {
                        return Err(format!("capacity {c} not in dispatch set"));
                    }
                }
                Ok(Input::Noise { prefix: kv.get_b("prefix")?, after: kv.get_u("after")? as u8, cap, noise: kv.get_b("noise")?, payload: kv.get_b("payload")? })
            }
            "cut" => {
                let cap = match kv.get_opt("cap").unwrap_or("none") {
                    "none" => None,
                    s => Some(s.parse::<usize>().map_err(|e| e.to_string())?),
                };
                let (m1, m2) = (kv.get_b("m1")?, kv.get_b("m2")?);
                if let Some(c) = cap {
                    if !CAPS.contains(&c) || c < m1.len().max(m2.len()) {
                        return Err(format!("capacity {c} not in dispatch set or smaller than a payload"));
                    }
                }
                Ok(Input::Cut { m1, k: kv.get_u("k")? as usize, m2, cap })
            }
            k => Err(format!("unknown kind {k}")),
        }
    }

    fn exhaustive_desc(_tier: Tier) -> String {
        "every admissible cut point of the frames of 40 fixed small payloads (covering escapes, zero tails, 0x1b tails) followed by a second frame; every noise suffix 1b^k (k 0..12) and every proper start-sequence prefix in front of a frame, for each idle history class".into()
    }

    fn exhaustive(_tier: Tier, shard: usize, nshards: usize, f: &mut dyn FnMut(&Input) -> bool) {
        let payloads = small_payload_set();
        let mut idx = 0usize;
        let mut emit = |i: Input, f: &mut dyn FnMut(&Input) -> bool| -> bool {
            let mine = idx % nshards == shard;
            idx += 1;
            if mine {
                f(&i)
            } else {
                true
            }
        };
        for m1 in &payloads {
            let fr = ref_frame_struct(m1);
            for k in 8..=fr.bytes.len() {
                if fr.cut_admissible(k) {
                    for m2 in [&payloads[0], &payloads[7]] {
                        let cap = if k % 2 == 0 { None } else { cap_at_least(m1.len().max(m2.len())) };
                        if !emit(Input::Cut { m1: m1.clone(), k, m2: m2.clone(), cap }, f) {
                            return;
                        }
                    }
                }
            }
        }
        let mut noises: Vec<Vec<u8>> = Vec::new();
        for k in 0..=12 {
            noises.push(vec![0x1b; k]);
            let mut v = vec![0xaa];
            v.extend(vec![0x1b; k]);
            noises.push(v);
        }
        for k in 1..8 {
            noises.push(crate::refmodel::transport::START[..k].to_vec());
            let mut v = vec![0x1b; 3];
            v.extend_from_slice(&crate::refmodel::transport::START[..k]);
            noises.push(v);
        }
        let histories: Vec<(Vec<u8>, u8)> = vec![
            (vec![], 0),
            (ref_frame(&payloads[3]), 0),
            ({
                let mut f = ref_frame(&payloads[3]);
                let l = f.len();
                f[l - 2] ^= 1;
                f
            }, 0),
            (ref_frame(&payloads[5])[..11].to_vec(), 1),
            (ref_frame(&payloads[5])[..14].to_vec(), 2),
        ];
        for g in &noises {
            if !noise_admissible(g) {
                continue;
            }
            for (prefix, after) in &histories {
                for m in [&payloads[1], &payloads[9]] {
                    for cap in [None, Some(16usize)] {
                        if cap.is_some() && (m.len() > 16 || prefix.len() > 24 + 16) {
                            continue;
                        }
                        if !emit(Input::Noise { prefix: prefix.clone(), after: *after, cap, noise: g.clone(), payload: m.clone() }, f) {
                            return;
                        }
                    }
                }
            }
        }
    }
}

/// 40 fixed small payloads covering escapes, zero tails and 0x1b tails.
pub fn small_payload_set() -> Vec<Vec<u8>> {
    let mut v: Vec<Vec<u8>> = vec![
        vec![],
        vec![0xa5],
        vec![0x12, 0x34, 0x56, 0x78],
        vec![1, 2, 3, 4, 5],
        vec![0],
        vec![0, 0, 0, 0, 0],
        vec![0x1b],
        vec![0x1b, 0x1b],
        vec![0x1b, 0x1b, 0x1b],
        vec![0x1b, 0x1b, 0x1b, 0x1b],
        vec![0x1b, 0x1b, 0x1b, 0x1b, 0x1b],
        vec![7, 0x1b, 0x1b, 0x1b, 0x1b, 0x1b, 0x1b, 0x1b, 0x1b, 9],
        vec![1, 1, 1, 1],
        vec![0x1b, 0x1b, 0x1b, 0x1b, 1, 1, 1, 1],
        vec![0x1b, 0x1b, 0x1b, 0x1b, 0x1a, 0, 1, 2],
        vec![9, 0, 0],
        vec![9, 9, 0, 0, 0],
        vec![9, 0x1b, 0],
        vec![9, 0, 0x1b],
        vec![9, 9, 9, 0x1b],
        vec![9, 9, 0x1b, 0x1b],
        vec![9, 0x1b, 0x1b, 0x1b],
        vec![0x1a],
        vec![0x1a, 0x1a, 0x1a, 0x1a],
    ];
    for n in [6usize, 7, 8, 9, 13, 16, 17, 18, 19, 20, 23, 24, 30, 31, 32, 33] {
        v.push((0..n).map(|i| (i as u8).wrapping_mul(37).wrapping_add(1) | 0x20).collect());
    }
    v
}
