//! G5: parser-input mutators over a G4 encoding with known spans.

use crate::refmodel::sml::{fix_crcs, fix_crcs_scan, tlf_bytes, Written, TY_LIST};
use proptest::collection::vec;
use proptest::prelude::*;

#[derive(Debug, Clone, PartialEq)]
pub enum PMut {
    Flip(u16, u8),
    Insert(u16, u8),
    Delete(u16),
    Truncate(u16),
    Extend(Vec<u8>),
    /// bytes[..a] ++ bytes[b..]
    Splice(u16, u16),
    /// change the element count of the i-th list TLF by +-1
    ListArity(u16, bool),
    /// overwrite the type bits of the i-th TLF
    TypeNibble(u16, u8),
    /// overwrite the data byte(s) following the i-th tag TLF (body tag, time tag, list-type tag)
    Tag(u16, u8),
    /// replace the i-th TLF by one declaring `value` with `nibbles` 4-bit groups
    LyingTlf(u16, u64, u16),
    /// insert a run of `len` equal bytes (continuation bytes 0x80, zeros, ones, ...) at a position
    InsertRun(u16, u8, u16),
    /// cut the input `back` bytes before the end of message i (1 = right before its end marker)
    TruncateAtMsgEnd(u16, u8),
    /// replace the i-th TLF by one of `nibbles` (9..=12) 4-bit groups whose value is the true
    /// one plus `hi` * 2^32: a reader that drops the bits beyond 32 sees an unchanged field
    WrapTlf(u16, u16, u8),
    /// replace the i-th TLF by one whose value is the true one plus `k` * 2^`bits` (bits 8, 16 or 24), minimal
    /// number of groups: a reader that compares or uses a truncated length sees an unchanged field
    ModTlf(u16, u8, u8),
    /// replace the message end marker of message i
    EndMarker(u16, u8),
    /// damage one checksum byte of message i
    CrcByte(u16, u8),
    /// re-encode the checksum field of message i dishonestly: 0 = drop its first byte and shorten the TLF
    /// (`63 HH LL` -> `62 LL`), 1 = drop its second byte (`62 HH`), 2 = widen it with a leading zero byte
    /// (`64 00 HH LL`, no longer a 16-bit field), 3 = one-byte field widened honestly (`62 LL` -> `63 00 LL`,
    /// same value: still valid), 4 = the two checksum bytes exchanged, 5 = bitwise complement, 6 = checksum
    /// that also covers the checksum field's own TLF byte
    CrcField(u16, u8),
}

fn idx(x: u16, len: usize) -> usize {
    if len == 0 {
        0
    } else {
        ((x as usize) * len) >> 16
    }
}

/// Values a lying TLF declares (raw nibble value, number of nibbles).
pub fn lying_value() -> impl Strategy<Value = (u64, u16)> {
    let mag = prop_oneof![
        6 => 0u64..21,
        2 => prop_oneof![Just(255u64), Just(256), Just(257)],
        2 => prop_oneof![Just(65_535u64), Just(65_536), Just(65_537)],
        2 => prop_oneof![Just((1u64 << 24) - 1), Just(1u64 << 24), Just((1u64 << 24) + 1)],
        2 => prop_oneof![Just((1u64 << 31) - 1), Just(1u64 << 31), Just((1u64 << 31) + 1)],
        3 => prop_oneof![Just(0xffff_fffdu64), Just(0xffff_fffe), Just(0xffff_ffff)],
        3 => prop_oneof![Just(1u64 << 32), Just((1u64 << 32) + 1), Just((1u64 << 32) + 15), (1u64 << 32)..(1u64 << 48)],
        2 => any::<u32>().prop_map(|x| x as u64),
    ];
    // extra leading zero nibbles: a few, or enough to overflow an 8-bit / 9-bit byte counter
    let extra = prop_oneof![20 => 0u16..4, 2 => 4u16..40, 1 => 244u16..262, 1 => 500u16..520];
    (mag, extra).prop_map(|(v, extra)| {
        let mut n = 1u16;
        let mut x = v >> 4;
        while x > 0 {
            n += 1;
            x >>= 4;
        }
        (v, if extra < 4 { (n + extra).min(12) } else { n + extra })
    })
}

pub fn pmut() -> impl Strategy<Value = PMut> {
    prop_oneof![
        3 => (any::<u16>(), any::<u8>()).prop_map(|(p, x)| PMut::Flip(p, x)),
        2 => (any::<u16>(), prop_oneof![Just(0u8), Just(1u8), Just(0x72u8), any::<u8>()]).prop_map(|(p, b)| PMut::Insert(p, b)),
        2 => any::<u16>().prop_map(PMut::Delete),
        3 => any::<u16>().prop_map(PMut::Truncate),
        2 => vec(prop_oneof![Just(0u8), Just(1u8), Just(0x76u8), any::<u8>()], 1..6).prop_map(PMut::Extend),
        1 => (any::<u16>(), any::<u16>()).prop_map(|(a, b)| PMut::Splice(a, b)),
        3 => (any::<u16>(), any::<bool>()).prop_map(|(i, up)| PMut::ListArity(i, up)),
        3 => (any::<u16>(), 0u8..8).prop_map(|(i, t)| PMut::TypeNibble(i, t)),
        3 => (any::<u16>(), any::<u8>()).prop_map(|(i, v)| PMut::Tag(i, v)),
        8 => (any::<u16>(), lying_value()).prop_map(|(i, (v, n))| PMut::LyingTlf(i, v, n)),
        3 => (any::<u16>(), 1u16..=u16::MAX, prop_oneof![4 => 9u8..13, 1 => 13u8..19, 1 => 19u8..41]).prop_map(|(i, hi, n)| PMut::WrapTlf(i, hi, n)),
        2 => (any::<u16>(), prop_oneof![Just(0x80u8), Just(0x00u8), Just(0x01u8), Just(0xffu8), Just(0x76u8)], prop_oneof![4 => 1u16..20, 2 => 250u16..262, 1 => 20u16..600]).prop_map(|(p, b, l)| PMut::InsertRun(p, b, l)),
        1 => (any::<u16>(), 1u8..5).prop_map(|(i, b)| PMut::TruncateAtMsgEnd(i, b)),
        2 => (any::<u16>(), 1u8..=255).prop_map(|(i, v)| PMut::EndMarker(i, v)),
        3 => (any::<u16>(), prop_oneof![Just(8u8), Just(16u8), Just(24u8)], 1u8..4).prop_map(|(i, b, k)| PMut::ModTlf(i, b, k)),
        2 => (any::<u16>(), 1u8..=255).prop_map(|(i, v)| PMut::CrcByte(i, v)),
        2 => (any::<u16>(), 0u8..7).prop_map(|(i, v)| PMut::CrcField(i, v)),
    ]
}

/// Applies one mutation. Spans refer to the *original* encoding; after a length-changing
/// mutation later span-based mutations fall back to byte-level behaviour on shifted offsets
/// (they are still mutations, just less targeted). Returns a label of what was done.
pub fn apply(bytes: &mut Vec<u8>, w: &Written, m: &PMut) -> String {
    let n = bytes.len();
    match m {
        PMut::Flip(p, x) => {
            if n > 0 {
                let i = idx(*p, n);
                bytes[i] ^= if *x == 0 { 1 } else { *x };
            }
            "flip".into()
        }
        PMut::Insert(p, b) => {
            bytes.insert(idx(*p, n + 1), *b);
            "insert".into()
        }
        PMut::Delete(p) => {
            if n > 0 {
                bytes.remove(idx(*p, n));
            }
            "delete".into()
        }
        PMut::Truncate(p) => {
            bytes.truncate(idx(*p, n + 1));
            "truncate".into()
        }
        PMut::Extend(v) => {
            bytes.extend_from_slice(v);
            "extend".into()
        }
        PMut::Splice(a, b) => {
            let (mut a, mut b) = (idx(*a, n + 1), idx(*b, n + 1));
            if a > b {
                std::mem::swap(&mut a, &mut b);
            }
            bytes.drain(a..b);
            "splice".into()
        }
        PMut::ListArity(i, up) => {
            let lists: Vec<_> = w.tlfs.iter().filter(|t| t.ty == TY_LIST).collect();
            if lists.is_empty() {
                return "noop".into();
            }
            let t = lists[idx(*i, lists.len())];
            if t.pos + t.n <= bytes.len() {
                let last = t.pos + t.n - 1;
                let nib = bytes[last] & 0x0f;
                let new = if *up { (nib + 1) & 0x0f } else { nib.wrapping_sub(1) & 0x0f };
                bytes[last] = (bytes[last] & 0xf0) | new;
            }
            format!("list-arity:{}", t.ctx)
        }
        PMut::TypeNibble(i, ty) => {
            if w.tlfs.is_empty() {
                return "noop".into();
            }
            let t = &w.tlfs[idx(*i, w.tlfs.len())];
            if t.pos < bytes.len() {
                bytes[t.pos] = (bytes[t.pos] & 0x8f) | ((ty & 7) << 4);
            }
            format!("type-nibble:{}", t.ctx)
        }
        PMut::Tag(i, v) => {
            let tags: Vec<_> = w.tlfs.iter().filter(|t| matches!(t.ctx, "body-tag" | "time-tag" | "value-list-tag")).collect();
            if tags.is_empty() {
                return "noop".into();
            }
            let t = tags[idx(*i, tags.len())];
            let p = t.pos + t.n;
            if p < bytes.len() {
                // body tags have >= 2 data bytes; alter the one that carries the message type
                let q = if t.ctx == "body-tag" { (t.pos + t.n + (bytes[t.pos + t.n - 1] & 0x0f) as usize).saturating_sub(t.n + 2).max(p) } else { p };
                let q = q.min(bytes.len() - 1);
                bytes[q] = if bytes[q] == *v { v.wrapping_add(1) } else { *v };
            }
            format!("tag:{}", t.ctx)
        }
        PMut::LyingTlf(i, v, nib) => {
            if w.tlfs.is_empty() {
                return "noop".into();
            }
            let t = &w.tlfs[idx(*i, w.tlfs.len())];
            if t.pos + t.n <= bytes.len() {
                let new = tlf_bytes(t.ty, *v, *nib as usize);
                bytes.splice(t.pos..t.pos + t.n, new);
            }
            format!("lying-tlf:{}:{}", t.ctx, magnitude(*v))
        }
        PMut::InsertRun(p, b, l) => {
            let at = idx(*p, n + 1);
            // prefer a TLF boundary when spans are known, so that 0x80 runs form long type-length fields
            let at = w.tlfs.iter().map(|t| t.pos).filter(|q| *q <= bytes.len()).min_by_key(|q| (*q as i64 - at as i64).abs()).unwrap_or(at);
            let run: Vec<u8> = std::iter::repeat(*b).take(*l as usize).collect();
            bytes.splice(at..at, run);
            format!("insert-run:{:02x}x{}", b, l)
        }
        PMut::TruncateAtMsgEnd(i, back) => {
            if w.msgs.is_empty() {
                return "noop".into();
            }
            let m = &w.msgs[idx(*i, w.msgs.len())];
            let cut = m.end.saturating_sub(*back as usize);
            if cut <= bytes.len() {
                bytes.truncate(cut);
            }
            "truncate-at-msg-end".into()
        }
        PMut::WrapTlf(i, hi, nib) => {
            if w.tlfs.is_empty() {
                return "noop".into();
            }
            let t = &w.tlfs[idx(*i, w.tlfs.len())];
            if t.pos + t.n <= bytes.len() && t.ty != crate::refmodel::sml::TY_BOOL {
                if let Ok(old) = crate::refmodel::sml::read_tlf(&bytes[t.pos..], t.pos) {
                    let nn = (*nib).clamp(9, 40) as usize;
                    let low = if t.ty == TY_LIST { old.len } else { old.len + nn as u64 };
                    if low <= u32::MAX as u64 {
                        let new = if nn <= 12 {
                            let max_hi = (1u64 << (4 * (nn - 8))) - 1;
                            let hi = 1 + (*hi as u64 - 1) % max_hi;
                            tlf_bytes(t.ty, (hi << 32) | low, nn)
                        } else {
                            // longer fields: the honest value in the low groups, zeros above it, and one non-zero
                            // group 8..nn-1 groups before the end (beyond 2^32, 2^64 or 2^128 - wherever a wider
                            // accumulator would wrap)
                            let mut f = tlf_bytes(t.ty, low, nn);
                            let d = 8 + (*hi as usize) % (nn - 8);
                            f[nn - 1 - d] |= 1 + ((*hi >> 8) as u8 % 15);
                            f
                        };
                        bytes.splice(t.pos..t.pos + t.n, new);
                    }
                }
            }
            format!("wrap-tlf:{}", t.ctx)
        }
        PMut::ModTlf(i, bits, k) => {
            if w.tlfs.is_empty() {
                return "noop".into();
            }
            let t = &w.tlfs[idx(*i, w.tlfs.len())];
            if t.pos + t.n <= bytes.len() && t.ty != crate::refmodel::sml::TY_BOOL {
                if let Ok(old) = crate::refmodel::sml::read_tlf(&bytes[t.pos..], t.pos) {
                    // the data length (or element count) the field honestly announces, plus k * 2^bits; for
                    // primitives the field's own size is part of the value, so iterate to a fixed point
                    let add = (*k as u64) << *bits;
                    let mut nn = 1usize;
                    loop {
                        let v = if t.ty == TY_LIST { old.len + add } else { old.len + add + nn as u64 };
                        let need = (64 - v.leading_zeros() as usize + 3) / 4;
                        if need.max(1) <= nn {
                            let new = tlf_bytes(t.ty, v, nn);
                            bytes.splice(t.pos..t.pos + t.n, new);
                            break;
                        }
                        nn += 1;
                    }
                }
            }
            format!("mod-tlf:{}", t.ctx)
        }
        PMut::EndMarker(i, v) => {
            if w.msgs.is_empty() {
                return "noop".into();
            }
            let m = &w.msgs[idx(*i, w.msgs.len())];
            if m.end >= 1 && m.end <= bytes.len() {
                bytes[m.end - 1] = *v;
            }
            "end-marker".into()
        }
        PMut::CrcByte(i, v) => {
            if w.msgs.is_empty() {
                return "noop".into();
            }
            let m = &w.msgs[idx(*i, w.msgs.len())];
            if m.crc_val < bytes.len() {
                bytes[m.crc_val] ^= *v;
            }
            "crc-byte".into()
        }
        PMut::CrcField(i, mode) => {
            if w.msgs.is_empty() {
                return "noop".into();
            }
            let m = &w.msgs[idx(*i, w.msgs.len())];
            // only for the plain encodings `63 HH LL` / `62 LL` (one TLF byte directly before the value)
            if m.crc_val + m.crc_width <= bytes.len() && m.crc_val == m.crc_tlf + 1 {
                if *mode >= 4 {
                    if m.crc_width == 2 {
                        match mode % 7 {
                            4 => bytes.swap(m.crc_val, m.crc_val + 1),
                            5 => {
                                bytes[m.crc_val] = !bytes[m.crc_val];
                                bytes[m.crc_val + 1] = !bytes[m.crc_val + 1];
                            }
                            _ => {
                                let c = crate::refmodel::transport::crc16_x25(&bytes[m.start..m.crc_val]);
                                bytes[m.crc_val] = (c & 0xff) as u8;
                                bytes[m.crc_val + 1] = (c >> 8) as u8;
                            }
                        }
                    }
                    return "crc-lookalike".into();
                }
                match (m.crc_width, mode % 4) {
                    (2, 0) => {
                        bytes[m.crc_tlf] = 0x62;
                        bytes.remove(m.crc_val);
                    }
                    (2, 1) => {
                        bytes[m.crc_tlf] = 0x62;
                        bytes.remove(m.crc_val + 1);
                    }
                    (2, 2) => {
                        bytes[m.crc_tlf] = 0x64;
                        bytes.insert(m.crc_val, 0x00);
                    }
                    (1, 3) | (1, 2) => {
                        bytes[m.crc_tlf] = 0x63;
                        bytes.insert(m.crc_val, 0x00);
                    }
                    (1, _) => {
                        bytes[m.crc_tlf] = 0x61;
                        bytes.remove(m.crc_val);
                    }
                    _ => {}
                }
            }
            "crc-field".into()
        }
    }
}

pub fn magnitude(v: u64) -> &'static str {
    match v {
        0..=255 => "<2^8",
        256..=65_535 => "<2^16",
        65_536..=0xff_ffff => "<2^24",
        0x100_0000..=0xffff_ffff => "<2^32",
        _ => ">=2^32",
    }
}

/// Applies the mutations and, if `fix`, recomputes every locatable message checksum.
/// Returns (labels, number of checksums patched).
pub fn mutate(w: &Written, muts: &[PMut], fix: bool) -> (Vec<u8>, Vec<String>, usize) {
    let mut bytes = w.bytes.clone();
    let mut labels = Vec::new();
    for m in muts {
        labels.push(apply(&mut bytes, w, m));
    }
    // grammar-based fix-up first (handles 1-byte and non-minimal checksum fields), then the
    // grammar-independent scan for messages whose structure the grammar rejects
    let patched = if fix { fix_crcs(&mut bytes) + fix_crcs_scan(&mut bytes) } else { 0 };
    (bytes, labels, patched)
}
