#!/bin/bash
# usage: mkbatch.sh <letter> <extra-steer-file> C01 C02 ...
L=$1; EXTRA=$2; shift 2
for P in "$@"; do
  n=${P#C}; wt=/tmp/wt-$L$n
  git -C /repo worktree remove --force $wt 2>/dev/null; rm -rf $wt
  git -C /repo worktree add -q --detach $wt HEAD
  python3 /tmp/agent_prompt.py $P $wt > /tmp/prompt_$L$n.txt
  sed -i 's/(b) the existing test-suite still passes completely: `cargo test --workspace --no-fail-fast --offline` (unit/(b) the existing test-suite still passes completely: `cargo test --workspace --no-fail-fast --offline` and also `cargo test --offline --features nb,embedded-hal-02 --lib` (unit/' /tmp/prompt_$L$n.txt
  # insert avoid + extra before the "Also provide a demonstration" paragraph
  python3 - "$L$n" "$EXTRA" <<'PY'
import sys
tag, extra = sys.argv[1], sys.argv[2]
p = '/tmp/prompt_%s.txt' % tag
s = open(p).read()
ins = open('/tmp/avoid.txt').read().rstrip('\n') + '\n' + open(extra).read().rstrip('\n') + '\n'
marker = '\nAlso provide a demonstration'
assert marker in s
s = s.replace(marker, ins + marker, 1)
open(p, 'w').write(s)
PY
  echo "$wt /tmp/prompt_$L$n.txt"
done
