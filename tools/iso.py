#!/usr/bin/env python3
"""Sensitivity runs in an isolated copy, so that /repo and /verif stay free for other work.

  tools/iso.py setup                      copy /verif (committed + working files, no build output) to /tmp/iso/verif,
                                          add a scratch worktree of /repo HEAD at /tmp/iso/repo, point the harness at it
  tools/iso.py own [name ...]             run my own mutants (sens/*.diff) against the checks that should see them
  tools/iso.py seeded [name ...]          run ALL 18 quick checks against kept seeded changes; prints a summary line each
  tools/iso.py benign [name ...]          run the quick checks against behaviour-changing but property-preserving changes
                                          (benign/<name>/patch.diff and benign/<name>.diff): every check must stay silent
  tools/iso.py teardown                   remove the copy and the worktree

Results are printed and appended to /tmp/iso/results-*.txt; nothing under /verif is written
(meta.json / RESULTS.txt are updated by hand from those files).
"""
import glob, json, os, shutil, subprocess, sys, time
VERIF = os.path.dirname(os.path.dirname(os.path.abspath(__file__)))
ISO = "/tmp/iso"
IV = ISO + "/verif"
IR = ISO + "/repo"
REL = {"c02": ["C02"], "c03": ["C03", "C04"], "c04": ["C04", "C09"], "c06": ["C06", "C04", "C09"], "c07": ["C07", "C01"],
       "c08": ["C08", "C10", "C11"], "c09": ["C09", "C04"], "c10": ["C10", "C15", "C11"], "c11": ["C11", "C17"],
       "c12": ["C12", "C03", "C04"], "c13": ["C13", "C06"], "c14": ["C14", "C01"], "c15": ["C15", "C10"],
       "c16": ["C16", "C01"], "c17": ["C17", "C05", "C15"], "c18": ["C18"]}
ALL = ["C%02d" % i for i in range(1, 19)]
PARSER = ["C03", "C04", "C06", "C09", "C10", "C12", "C13"]
TRANSPORT = ["C01", "C02", "C05", "C07", "C08", "C10", "C11", "C14", "C15", "C16", "C17"]

def relevant_ids(patch):
    """Checks that execute the files a patch touches (ISO_AUTO=1): a change under src/parser cannot influence
    the transport checks and vice versa; src/util.rs also carries ArrayBuf (C18); src/lib.rs is glue for both."""
    files = [l[6:].strip() for l in open(patch) if l.startswith("+++ b/")]
    ids = set()
    for f in files:
        if f.startswith("src/parser/"):
            ids.update(PARSER)
        elif f.startswith("src/transport/"):
            ids.update(TRANSPORT)
        elif f == "src/util.rs":
            ids.update(TRANSPORT + ["C18"])
        else:
            ids.update(ALL)
    return sorted(ids)

def sh(cmd, cwd=None):
    return subprocess.run(cmd, shell=True, cwd=cwd, text=True, stdout=subprocess.PIPE, stderr=subprocess.STDOUT)

def setup():
    os.makedirs(ISO, exist_ok=True)
    sh("git -C /repo worktree remove --force %s" % IR)
    shutil.rmtree(IR, ignore_errors=True)
    r = sh("git -C /repo worktree add -q --detach %s HEAD" % IR)
    print(r.stdout)
    os.makedirs(IV, exist_ok=True)
    r = sh("rsync -a --delete --exclude 'target*' --exclude work --exclude replays --exclude .git --exclude evidence --exclude 'fuzz/target' %s/ %s/" % (VERIF, IV))
    print(r.stdout)
    for f in ["harness/Cargo.toml"]:
        p = os.path.join(IV, f)
        s = open(p).read().replace('path = "/repo"', 'path = "%s"' % IR)
        open(p, "w").write(s)
    r = sh("./run build", cwd=IV)
    print(r.stdout[-500:])

def sync_sources():
    # bring the isolated harness sources up to date with /verif (keeps its build output)
    sh("rsync -a --exclude 'target*' --exclude work --exclude replays --exclude .git --exclude evidence --exclude 'fuzz/target' --exclude Cargo.toml %s/harness/ %s/harness/" % (VERIF, IV))
    sh("rsync -a %s/run %s/run; rsync -a %s/known_findings.txt %s/known_findings.txt" % (VERIF, IV, VERIF, IV))

def run_patch(patch, ids):
    st = sh("git status --porcelain", cwd=IR).stdout.strip()
    if st:
        sh("git checkout -- .", cwd=IR)
    r = sh("git apply %s" % patch, cwd=IR)
    if r.returncode != 0:
        return {"error": "patch does not apply: " + r.stdout}, []
    res, details = {}, []
    try:
        for i in ids:
            t0 = time.time()
            r = sh("./run %s quick" % i, cwd=IV)
            v = [l for l in r.stdout.splitlines() if l.startswith("VIOLATION")]
            if r.returncode == 1 and v:
                res[i] = "DETECTED"
                det = [l for l in r.stdout.splitlines() if l.startswith("  ")][:3]
                details.append("%s DETECTED in %.0fs: %s" % (i, time.time() - t0, " | ".join(d.strip()[:220] for d in det)))
            elif r.returncode == 0:
                res[i] = "missed"
            else:
                res[i] = "inconclusive"
                details.append("%s inconclusive: %s" % (i, r.stdout[-400:].replace("\n", " ")))
    finally:
        sh("git checkout -- .", cwd=IR)
    return res, details

def main():
    cmd = sys.argv[1]
    if cmd == "setup":
        setup(); return
    if cmd == "teardown":
        sh("git -C /repo worktree remove --force %s" % IR); shutil.rmtree(ISO, ignore_errors=True); return
    names = sys.argv[2:]
    sync_sources()
    if cmd == "own":
        out = open(ISO + "/results-own.txt", "a")
        for f in sorted(glob.glob(os.path.join(VERIF, "sens", "*.diff"))):
            name = os.path.basename(f)[:-5]
            if names and name not in names:
                continue
            res, det = run_patch(f, REL[name[:3]])
            line = "%s %s" % (name, " ".join("%s=%s" % kv for kv in res.items()))
            print(line, flush=True)
            out.write(line + "\n")
            for d in det:
                out.write("    " + d + "\n")
            out.flush()
    elif cmd == "seeded":
        out = open(ISO + "/results-seeded.txt", "a")
        for d in sorted(glob.glob(os.path.join(VERIF, "seeded", "*"))):
            name = os.path.basename(d)
            if names and name not in names:
                continue
            ids = ALL
            if os.environ.get("ISO_IDS"):
                ids = os.environ["ISO_IDS"].split(",")
            elif os.environ.get("ISO_AUTO"):
                ids = relevant_ids(os.path.join(d, "patch.diff"))
            res, det = run_patch(os.path.join(d, "patch.diff"), ids)
            line = "%s %s" % (name, " ".join("%s=%s" % kv for kv in res.items()))
            print(line, flush=True)
            out.write(line + "\n")
            for x in det:
                out.write("    " + x + "\n")
            out.flush()
    elif cmd == "benign":
        out = open(ISO + "/results-benign.txt", "a")
        pats = sorted(glob.glob(os.path.join(VERIF, "benign", "*", "patch.diff")) + glob.glob(os.path.join(VERIF, "benign", "*.diff")))
        for f in pats:
            name = os.path.basename(os.path.dirname(f)) if f.endswith("patch.diff") else os.path.basename(f)[:-5]
            if names and name not in names:
                continue
            ids = ALL
            if os.environ.get("ISO_IDS"):
                ids = os.environ["ISO_IDS"].split(",")
            elif os.environ.get("ISO_AUTO"):
                ids = relevant_ids(f)
            res, det = run_patch(f, ids)
            alarms = [k for k, v in res.items() if v != "missed"]
            line = "%s %s %s" % (name, "SILENT" if not alarms else "ALARM:" + ",".join(alarms), " ".join("%s=%s" % kv for kv in res.items()))
            print(line, flush=True)
            out.write(line + "\n")
            for x in det:
                out.write("    " + x + "\n")
            out.flush()

if __name__ == "__main__":
    main()
