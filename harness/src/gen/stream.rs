//! G2: adversarial transport streams as token lists; G3: idle noise.

use super::payload::{moderate_payload, sized_payload, SizedPayload};
use crate::refmodel::transport::{crc16_x25, noise_admissible, ref_frame, START};
use proptest::collection::vec;
use proptest::prelude::*;

#[derive(Debug, Clone, PartialEq)]
pub enum Mutation {
    Drop(u16),
    Insert(u16, u8),
    Flip(u16, u8),
    Truncate(u16),
    /// overwrite the pad-count byte
    PadCount(u8),
    /// insert (`n > 0`) bytes `byte` or remove (`n < 0`) bytes directly before the end sequence
    ShiftEnd(i8, u8),
    DupStart,
    /// insert n zeros before the end sequence and set the pad count to `pad`
    ZerosBeforeEnd(u8, u8),
    /// replace the final 1-3 payload bytes before the end sequence by 0x1b (re-alignment look-alike)
    TailEsc(u8),
    /// replace the checksum by a look-alike of the right one: 0 = its two bytes exchanged, 1 = bitwise
    /// complement (no final xor), 2 = CRC of the frame without its start sequence, 3 = CRC of the payload
    /// bytes only, 4 = CRC-16/X.25 run without the end sequence, 5 = the right checksum + 1
    CrcLookalike(u8),
    /// overwrite byte k (0..8) of the frame's start sequence
    StartByte(u8, u8),
}

#[derive(Debug, Clone, PartialEq)]
pub enum STok {
    Start,
    Frame(SizedPayload),
    Mut { p: SizedPayload, m: Mutation, refix: bool },
    Esc(usize),
    Zeros(usize),
    LitEsc,
    Rand(Vec<u8>),
    Byte(u8),
    Noise { byte: u8, len: usize },
    /// first k bytes of the start sequence
    PartialStart(usize),
    /// `1b1b1b1b 1a p` + CRC of the stream from the `from`-th most recent START occurrence
    End { pad: u8, from: u8, align: bool, honest_pad: bool },
    EndGarbage { pad: u8, c1: u8, c2: u8 },
    /// the inner token lowered `times` times in a row (many transmissions / boundaries on one object)
    Rep(Box<STok>, usize),
}

fn idx(x: u16, len: usize) -> usize {
    if len == 0 {
        0
    } else {
        ((x as usize) * len) >> 16
    }
}

/// Applies a mutation to a canonical frame; with `refix` the trailing CRC is recomputed.
pub fn mutate_frame(frame: &[u8], m: &Mutation, refix: bool) -> Vec<u8> {
    let mut f = frame.to_vec();
    let n = f.len();
    let end = n - 8; // start of the end sequence
    match m {
        Mutation::Drop(x) => {
            f.remove(idx(*x, n));
        }
        Mutation::Insert(x, b) => {
            f.insert(idx(*x, n + 1), *b);
        }
        Mutation::Flip(x, b) => {
            let i = idx(*x, n);
            f[i] ^= if *b == 0 { 1 } else { *b };
        }
        Mutation::Truncate(x) => {
            f.truncate(idx(*x, n));
        }
        Mutation::PadCount(p) => {
            f[n - 3] = *p;
        }
        Mutation::ShiftEnd(d, b) => {
            if *d >= 0 {
                for _ in 0..*d {
                    f.insert(end, *b);
                }
            } else {
                let k = ((-*d) as usize).min(end - 8);
                f.drain(end - k..end);
            }
        }
        Mutation::DupStart => {
            let mut g = START.to_vec();
            g.extend_from_slice(&f);
            f = g;
        }
        Mutation::ZerosBeforeEnd(k, p) => {
            for _ in 0..*k {
                f.insert(end, 0);
            }
            let l = f.len();
            f[l - 3] = *p;
        }
        Mutation::TailEsc(k) => {
            let k = (*k as usize).clamp(1, 3).min(end - 8);
            for i in 0..k {
                f[end - 1 - i] = 0x1b;
            }
        }
        Mutation::StartByte(k, v) => {
            let k = (*k % 8) as usize;
            f[k] = if f[k] == *v { v.wrapping_add(1) } else { *v };
        }
        Mutation::CrcLookalike(kind) => {
            let right = crc16_x25(&f[..n - 2]);
            let c = match kind % 6 {
                0 => right.swap_bytes(),
                1 => !right,
                2 => crc16_x25(&f[8..n - 2]),
                3 => crc16_x25(&f[8..end]),
                4 => crc16_x25(&f[..end]),
                _ => right.wrapping_add(1),
            };
            f[n - 2] = (c & 0xff) as u8;
            f[n - 1] = (c >> 8) as u8;
            return f;
        }
    }
    if refix && f.len() >= 2 {
        let l = f.len();
        let crc = crc16_x25(&f[..l - 2]);
        f[l - 2] = (crc & 0xff) as u8;
        f[l - 1] = (crc >> 8) as u8;
    }
    f
}

fn start_occurrences_rev(out: &[u8], want: usize) -> Option<usize> {
    // `want`-th most recent occurrence of START (0 = most recent), falling back to the oldest found
    let mut found = 0usize;
    let mut last = None;
    if out.len() < 8 {
        return None;
    }
    let mut i = out.len() - 8;
    loop {
        if out[i] == 0x1b && out[i..i + 8] == START {
            last = Some(i);
            if found == want {
                return last;
            }
            found += 1;
        }
        if i == 0 {
            break;
        }
        i -= 1;
    }
    last
}

pub fn lower_stream(toks: &[STok]) -> Vec<u8> {
    let mut out = Vec::new();
    for t in toks {
        lower_tok(t, &mut out);
    }
    out
}

fn lower_tok(t: &STok, out: &mut Vec<u8>) {
    match t {
        STok::Start => out.extend_from_slice(&START),
        STok::Frame(p) => out.extend_from_slice(&ref_frame(&p.bytes())),
        STok::Mut { p, m, refix } => out.extend_from_slice(&mutate_frame(&ref_frame(&p.bytes()), m, *refix)),
        STok::Esc(k) => out.extend(std::iter::repeat(0x1b).take(*k)),
        STok::Zeros(k) => out.extend(std::iter::repeat(0).take(*k)),
        STok::LitEsc => out.extend_from_slice(&[0x1b; 8]),
        STok::Rand(v) => out.extend_from_slice(v),
        STok::Byte(b) => out.push(*b),
        STok::Noise { byte, len } => out.extend(std::iter::repeat(*byte).take(*len)),
        STok::PartialStart(k) => out.extend_from_slice(&START[..(*k).min(8)]),
        STok::End { pad, from, align, honest_pad } => {
            let s = start_occurrences_rev(out, *from as usize).unwrap_or(0);
            let mut pad = *pad;
            if *align {
                let n = (4 - (out.len() - s) % 4) % 4;
                out.extend(std::iter::repeat(0).take(n));
                if *honest_pad {
                    pad = n as u8;
                }
            }
            out.extend_from_slice(&[0x1b, 0x1b, 0x1b, 0x1b, 0x1a, pad]);
            let crc = crc16_x25(&out[s..]);
            out.push((crc & 0xff) as u8);
            out.push((crc >> 8) as u8);
        }
        STok::EndGarbage { pad, c1, c2 } => out.extend_from_slice(&[0x1b, 0x1b, 0x1b, 0x1b, 0x1a, *pad, *c1, *c2]),
        STok::Rep(inner, times) => {
            for _ in 0..*times {
                lower_tok(inner, out);
            }
        }
    }
}

/// Pad-count bytes: mostly 0..=5, but also the boundaries of every plausible counter width.
pub fn pad_byte() -> impl Strategy<Value = u8> {
    prop_oneof![
        12 => 0u8..6,
        3 => prop_oneof![Just(0x7fu8), Just(0x80), Just(0xef), Just(0xf0), Just(0xf1), Just(0xfc), Just(0xfe), Just(0xff)],
        1 => any::<u8>(),
    ]
}

pub fn mutation() -> impl Strategy<Value = Mutation> {
    prop_oneof![
        2 => any::<u16>().prop_map(Mutation::Drop),
        2 => (any::<u16>(), prop_oneof![Just(0u8), Just(0x1b), Just(0x1a), Just(1), any::<u8>()]).prop_map(|(x, b)| Mutation::Insert(x, b)),
        2 => (any::<u16>(), any::<u8>()).prop_map(|(x, b)| Mutation::Flip(x, b)),
        2 => any::<u16>().prop_map(Mutation::Truncate),
        3 => pad_byte().prop_map(Mutation::PadCount),
        3 => (-3i8..4, prop_oneof![Just(0u8), Just(0x1b), any::<u8>()]).prop_map(|(d, b)| Mutation::ShiftEnd(d, b)),
        1 => Just(Mutation::DupStart),
        3 => (0u8..9, 0u8..8).prop_map(|(k, p)| Mutation::ZerosBeforeEnd(k, p)),
        2 => (1u8..4).prop_map(Mutation::TailEsc),
        3 => (0u8..6).prop_map(Mutation::CrcLookalike),
        3 => (0u8..8, prop_oneof![Just(0x1bu8), Just(0x01), Just(0x00), Just(0xff), any::<u8>()]).prop_map(|(k, v)| Mutation::StartByte(k, v)),
    ]
}

/// Noise run lengths: small, around 255/256, dense around k*65536 +- 2, up to `max`.
pub fn noise_len(max: usize) -> BoxedStrategy<usize> {
    if max <= 70_000 {
        prop_oneof![
            10 => 1usize..40,
            3 => 250usize..262,
            1 => 260usize..max.max(261),
        ]
        .boxed()
    } else {
        prop_oneof![
            20 => 1usize..40,
            6 => 250usize..262,
            2 => 260usize..9000,
            2 => 65_533usize..65_540,
            1 => 131_069usize..131_076,
            1 => 9000usize..max,
        ]
        .boxed()
    }
}

/// Tiny payloads (0..=12 bytes, G1 token shapes and tails) for tokens that are repeated many times.
pub fn tiny_payload() -> impl Strategy<Value = SizedPayload> {
    (super::payload::payload_small(), 0usize..13, any::<u64>()).prop_map(|(shape, len, seed)| SizedPayload { shape, len: Some(len), seed })
}

/// Repetition counts: a few, around 2^8, and anything up to 700.
pub fn rep_times() -> impl Strategy<Value = usize> {
    prop_oneof![6 => 2usize..9, 2 => 250usize..262, 2 => 9usize..700]
}

/// A cheap token to be repeated: tiny valid frame, tiny broken frame, bare start, forged end, escape, short noise.
pub fn rep_inner() -> BoxedStrategy<STok> {
    prop_oneof![
        6 => tiny_payload().prop_map(STok::Frame),
        4 => (tiny_payload(), mutation(), prop::bool::weighted(0.7)).prop_map(|(p, m, refix)| STok::Mut { p, m, refix }),
        1 => Just(STok::Start),
        1 => Just(STok::LitEsc),
        1 => (1usize..8).prop_map(STok::PartialStart),
        1 => (1usize..6).prop_map(STok::Esc),
        1 => vec(any::<u8>(), 1..4).prop_map(STok::Rand),
        2 => (pad_byte(), 0u8..3, prop::bool::weighted(0.7), prop::bool::weighted(0.6)).prop_map(|(pad, from, align, honest_pad)| STok::End { pad, from, align, honest_pad }),
    ]
    .boxed()
}

pub fn stok(big: bool) -> BoxedStrategy<STok> {
    let max_noise = if big { 140_000 } else { 3000 };
    let payload = if big { sized_payload(70_000).boxed() } else { moderate_payload().boxed() };
    prop_oneof![
        3 => Just(STok::Start),
        5 => payload.prop_map(STok::Frame),
        6 => (moderate_payload(), mutation(), prop::bool::weighted(0.7)).prop_map(|(p, m, refix)| STok::Mut { p, m, refix }),
        3 => (1usize..12).prop_map(STok::Esc),
        3 => (1usize..9).prop_map(STok::Zeros),
        1 => Just(STok::LitEsc),
        3 => vec(any::<u8>(), 1..10).prop_map(STok::Rand),
        3 => prop_oneof![Just(0x1au8), Just(1), Just(0), Just(0x1b), Just(0xa5)].prop_map(STok::Byte),
        2 => (prop_oneof![Just(0u8), Just(0xaa), Just(0x01), Just(0x1a), any::<u8>()], noise_len(max_noise)).prop_map(|(byte, len)| STok::Noise { byte, len }),
        2 => (1usize..8).prop_map(STok::PartialStart),
        8 => (pad_byte(), 0u8..3, prop::bool::weighted(0.7), prop::bool::weighted(0.6)).prop_map(|(pad, from, align, honest_pad)| STok::End { pad, from, align, honest_pad }),
        1 => (pad_byte(), any::<u8>(), any::<u8>()).prop_map(|(pad, c1, c2)| STok::EndGarbage { pad, c1, c2 }),
        1 => (rep_inner(), rep_times()).prop_map(|(t, n)| STok::Rep(Box::new(t), n)),
    ]
    .boxed()
}

/// G2 streams: 1..max_tokens tokens.
pub fn stream(max_tokens: usize, big: bool) -> impl Strategy<Value = Vec<STok>> {
    vec(stok(big), 1..max_tokens.max(2))
}

/// The 13-token alphabet of the exhaustive part of C02 (and friends).
pub fn small_alphabet() -> Vec<STok> {
    vec![
        STok::Start,
        STok::Byte(0x1b),
        STok::Esc(4),
        STok::Byte(0x00),
        STok::Zeros(2),
        STok::Byte(0x01),
        STok::Byte(0x1a),
        STok::Byte(0xa5),
        STok::End { pad: 0, from: 0, align: false, honest_pad: false },
        STok::End { pad: 1, from: 0, align: false, honest_pad: false },
        STok::End { pad: 3, from: 1, align: false, honest_pad: false },
        STok::End { pad: 4, from: 0, align: false, honest_pad: false },
        STok::End { pad: 0xf0, from: 0, align: false, honest_pad: false },
    ]
}

/// Enumerates token sequence number `idx` of length `len` over `alpha`.
pub fn nth_token_seq(alpha: &[STok], len: usize, mut idx: u64) -> Vec<STok> {
    let mut v = Vec::with_capacity(len);
    for _ in 0..len {
        v.push(alpha[(idx % alpha.len() as u64) as usize].clone());
        idx /= alpha.len() as u64;
    }
    v
}

/// Number of token sequences of length 1..=maxlen over the small alphabet.
pub fn small_seq_total(maxlen: usize) -> u64 {
    let a = small_alphabet().len() as u64;
    (1..=maxlen).map(|l| a.pow(l as u32)).sum()
}

/// The idx-th token sequence (0-based) of length 1..=maxlen over the small alphabet, lowered to bytes.
pub fn small_seq_bytes(alpha: &[STok], maxlen: usize, idx: u64) -> Vec<u8> {
    let a = alpha.len() as u64;
    let mut k = idx;
    let mut len = 1;
    for l in 1..=maxlen {
        let n = a.pow(l as u32);
        if k < n {
            len = l;
            break;
        }
        k -= n;
    }
    lower_stream(&nth_token_seq(alpha, len, k))
}

// ---------------------------------------------------------------------------------------
// G3 idle noise
// ---------------------------------------------------------------------------------------

#[derive(Debug, Clone, PartialEq)]
pub enum NTok {
    Rand(Vec<u8>),
    Esc(usize),
    PartialStart(usize),
    EndLike(u8, u8, u8),
    Zeros(usize),
    Run { byte: u8, len: usize },
    Ones(usize),
}

#[derive(Debug, Clone, PartialEq)]
pub struct Noise {
    pub toks: Vec<NTok>,
    /// forced suffix class
    pub suffix: NSuffix,
}

#[derive(Debug, Clone, PartialEq)]
pub enum NSuffix {
    None,
    Esc(usize),
    /// 1b1b1b1b + k times 01 (k 1..=3)
    PartialStart(usize),
    EndLike(u8, u8, u8),
}

impl Noise {
    pub fn bytes(&self) -> Vec<u8> {
        let mut out = Vec::new();
        for t in &self.toks {
            match t {
                NTok::Rand(v) => out.extend_from_slice(v),
                NTok::Esc(k) => out.extend(std::iter::repeat(0x1b).take(*k)),
                NTok::PartialStart(k) => out.extend_from_slice(&START[..(*k).min(7)]),
                NTok::EndLike(p, a, b) => out.extend_from_slice(&[0x1b, 0x1b, 0x1b, 0x1b, 0x1a, *p, *a, *b]),
                NTok::Zeros(k) => out.extend(std::iter::repeat(0).take(*k)),
                NTok::Run { byte, len } => out.extend(std::iter::repeat(*byte).take(*len)),
                NTok::Ones(k) => out.extend(std::iter::repeat(1).take(*k)),
            }
        }
        match &self.suffix {
            NSuffix::None => {}
            NSuffix::Esc(k) => out.extend(std::iter::repeat(0x1b).take(*k)),
            NSuffix::PartialStart(k) => {
                out.extend_from_slice(&[0x1b; 4]);
                out.extend(std::iter::repeat(1).take((*k).clamp(1, 3)));
            }
            NSuffix::EndLike(p, a, b) => out.extend_from_slice(&[0x1b, 0x1b, 0x1b, 0x1b, 0x1a, *p, *a, *b]),
        }
        out
    }
    pub fn suffix_class(bytes: &[u8]) -> &'static str {
        if bytes.is_empty() {
            return "noise:empty";
        }
        let n = bytes.len();
        for k in (5..=7).rev() {
            if n >= k && bytes[n - k..] == START[..k] {
                return match k {
                    5 => "noise:..1b1b1b1b01",
                    6 => "noise:..1b1b1b1b0101",
                    _ => "noise:..1b1b1b1b010101",
                };
            }
        }
        let mut e = 0;
        while e < n && bytes[n - 1 - e] == 0x1b {
            e += 1;
        }
        match e {
            0 => "noise:plain",
            1 => "noise:..1b",
            2 => "noise:..1b1b",
            3 => "noise:..1b1b1b",
            4 => "noise:..1b1b1b1b",
            _ => "noise:..1b{5+}",
        }
    }
}

pub fn ntok(max_run: usize) -> impl Strategy<Value = NTok> {
    prop_oneof![
        4 => vec(any::<u8>(), 1..10).prop_map(NTok::Rand),
        3 => (1usize..13).prop_map(NTok::Esc),
        3 => (1usize..8).prop_map(NTok::PartialStart),
        1 => (0u8..5, any::<u8>(), any::<u8>()).prop_map(|(p, a, b)| NTok::EndLike(p, a, b)),
        2 => (1usize..6).prop_map(NTok::Zeros),
        2 => (1usize..6).prop_map(NTok::Ones),
        1 => (prop_oneof![Just(0u8), Just(0xaa), Just(1u8), any::<u8>()], noise_len(max_run)).prop_map(|(byte, len)| NTok::Run { byte, len }),
    ]
}

pub fn nsuffix() -> impl Strategy<Value = NSuffix> {
    prop_oneof![
        3 => Just(NSuffix::None),
        4 => (1usize..13).prop_map(NSuffix::Esc),
        3 => (1usize..4).prop_map(NSuffix::PartialStart),
        1 => (0u8..5, any::<u8>(), any::<u8>()).prop_map(|(p, a, b)| NSuffix::EndLike(p, a, b)),
    ]
}

/// Counters of the noise filter (generated / rejected because the noise contained a start sequence).
pub static NOISE_GENERATED: std::sync::atomic::AtomicU64 = std::sync::atomic::AtomicU64::new(0);
pub static NOISE_REJECTED: std::sync::atomic::AtomicU64 = std::sync::atomic::AtomicU64::new(0);

/// Idle noise whose concatenation with START contains START only at its end. `allow_empty`
/// decides whether the empty noise is produced.
pub fn noise(max_run: usize, allow_empty: bool) -> impl Strategy<Value = Noise> {
    (vec(ntok(max_run), if allow_empty { 0..5usize } else { 1..5usize }), nsuffix())
        .prop_map(|(toks, suffix)| Noise { toks, suffix })
        .prop_filter("noise must not contain a start sequence", |n| {
            use std::sync::atomic::Ordering::Relaxed;
            NOISE_GENERATED.fetch_add(1, Relaxed);
            let ok = noise_admissible(&n.bytes());
            if !ok {
                NOISE_REJECTED.fetch_add(1, Relaxed);
            }
            ok
        })
}

#[cfg(test)]
mod tests {
    use super::*;
    #[test]
    fn end_token_produces_valid_frame() {
        let toks = vec![STok::Start, STok::Byte(0xa5), STok::End { pad: 0, from: 0, align: true, honest_pad: true }];
        let s = lower_stream(&toks);
        assert_eq!(s, ref_frame(&[0xa5]));
    }
}
