//! Shared generators (proptest strategies).
pub mod faults;
pub mod mutate;
pub mod payload;
pub mod pinput;
pub mod smlfile;
pub mod stream;
pub mod tree;
