//! Panic capture and crash guard.
//!
//! * `catch(f)`: runs `f` under `catch_unwind`; a panic is returned as a `PanicInfo` with
//!   message and `file:line` (recorded by a quiet panic hook).
//! * crash guard: before each case the worker publishes the serialised case in a per-thread
//!   slot. Handlers for SIGABRT/SIGSEGV/SIGBUS/SIGILL write the slot of the crashing thread to
//!   `<prefix><slot>.case` with `open/write/close` only and `_exit(CRASH_EXIT)`.

use std::cell::RefCell;
use std::ffi::CString;
use std::panic::{self, AssertUnwindSafe};
use std::sync::atomic::{AtomicI32, AtomicPtr, AtomicUsize, Ordering};
use std::sync::Once;

#[derive(Debug, Clone)]
pub struct PanicInfo {
    pub msg: String,
    pub file: String,
    pub line: u32,
}

impl PanicInfo {
    /// The harness crate's own files show up with relative paths (`src/...`); the crate under
    /// test with `/repo/...` (path dependency), std with `/rustc/...`.
    pub fn in_harness(&self) -> bool {
        self.file.starts_with("src/") || self.file.contains("/verif/harness/")
    }
    pub fn describe(&self) -> String {
        format!("panic at {}:{}: {}", self.file, self.line, self.msg)
    }
}

thread_local! {
    static LAST_PANIC: RefCell<Option<PanicInfo>> = const { RefCell::new(None) };
    static CAPTURING: std::cell::Cell<bool> = const { std::cell::Cell::new(false) };
}

static HOOK: Once = Once::new();

pub fn install_panic_hook() {
    HOOK.call_once(|| {
        let default = panic::take_hook();
        panic::set_hook(Box::new(move |info| {
            let msg = if let Some(s) = info.payload().downcast_ref::<&str>() {
                s.to_string()
            } else if let Some(s) = info.payload().downcast_ref::<String>() {
                s.clone()
            } else {
                "<non-string panic payload>".to_string()
            };
            let (file, line) = info.location().map(|l| (l.file().to_string(), l.line())).unwrap_or_default();
            let capturing = CAPTURING.with(|c| c.get());
            if capturing {
                LAST_PANIC.with(|p| *p.borrow_mut() = Some(PanicInfo { msg, file, line }));
            } else {
                default(info);
            }
        }));
    });
}

/// Runs `f`, converting a panic into `Err(PanicInfo)`.
pub fn catch<T>(f: impl FnOnce() -> T) -> Result<T, PanicInfo> {
    install_panic_hook();
    let prev = CAPTURING.with(|c| c.replace(true));
    LAST_PANIC.with(|p| *p.borrow_mut() = None);
    let r = panic::catch_unwind(AssertUnwindSafe(f));
    CAPTURING.with(|c| c.set(prev));
    match r {
        Ok(v) => Ok(v),
        Err(_) => Err(LAST_PANIC.with(|p| p.borrow_mut().take()).unwrap_or(PanicInfo {
            msg: "<panic without hook info>".into(),
            file: String::new(),
            line: 0,
        })),
    }
}

// ---------------------------------------------------------------------------------------
// crash guard
// ---------------------------------------------------------------------------------------

pub const CRASH_EXIT: i32 = 86;
const NSLOTS: usize = 64;

struct Slot {
    tid: AtomicI32,
    ptr: AtomicPtr<u8>,
    len: AtomicUsize,
}

#[allow(clippy::declare_interior_mutable_const)]
const EMPTY: Slot = Slot { tid: AtomicI32::new(0), ptr: AtomicPtr::new(std::ptr::null_mut()), len: AtomicUsize::new(0) };
static SLOTS: [Slot; NSLOTS] = [EMPTY; NSLOTS];
static PREFIX: AtomicPtr<libc::c_char> = AtomicPtr::new(std::ptr::null_mut());

fn gettid() -> i32 {
    unsafe { libc::syscall(libc::SYS_gettid) as i32 }
}

extern "C" fn on_signal(sig: libc::c_int) {
    unsafe {
        let tid = gettid();
        let prefix = PREFIX.load(Ordering::Relaxed);
        let mut written = false;
        if !prefix.is_null() {
            for (i, s) in SLOTS.iter().enumerate() {
                if s.tid.load(Ordering::Relaxed) == tid {
                    let p = s.ptr.load(Ordering::Relaxed);
                    let n = s.len.load(Ordering::Relaxed);
                    // path = prefix + two digits + ".case\0"
                    let mut path = [0u8; 512];
                    let mut k = 0usize;
                    while *prefix.add(k) != 0 && k < 480 {
                        path[k] = *prefix.add(k) as u8;
                        k += 1;
                    }
                    path[k] = b'0' + (i / 10) as u8;
                    path[k + 1] = b'0' + (i % 10) as u8;
                    for (j, c) in b".case\0".iter().enumerate() {
                        path[k + 2 + j] = *c;
                    }
                    let fd = libc::open(
                        path.as_ptr() as *const libc::c_char,
                        libc::O_CREAT | libc::O_WRONLY | libc::O_TRUNC,
                        0o644,
                    );
                    if fd >= 0 {
                        let hdr = b"# in-flight case saved by the crash guard; signal=";
                        libc::write(fd, hdr.as_ptr() as *const libc::c_void, hdr.len());
                        let d = [b'0' + (sig / 10) as u8, b'0' + (sig % 10) as u8, b'\n'];
                        libc::write(fd, d.as_ptr() as *const libc::c_void, 3);
                        if !p.is_null() && n > 0 {
                            let mut off = 0usize;
                            while off < n {
                                let w = libc::write(fd, p.add(off) as *const libc::c_void, n - off);
                                if w <= 0 {
                                    break;
                                }
                                off += w as usize;
                            }
                        }
                        libc::close(fd);
                        written = true;
                        let m1 = b"CRASH-GUARD replay=";
                        libc::write(2, m1.as_ptr() as *const libc::c_void, m1.len());
                        libc::write(2, path.as_ptr() as *const libc::c_void, k + 7);
                        libc::write(2, b"\n".as_ptr() as *const libc::c_void, 1);
                    }
                    break;
                }
            }
        }
        if !written {
            let m = b"CRASH-GUARD no in-flight case for crashing thread\n";
            libc::write(2, m.as_ptr() as *const libc::c_void, m.len());
            libc::_exit(CRASH_EXIT + 1);
        }
        libc::_exit(CRASH_EXIT);
    }
}

/// Installs the signal handlers. `prefix` is e.g. `/verif/replays/C06-checked-crash-`.
pub fn install_crash_guard(prefix: &str) {
    let c = CString::new(prefix).unwrap();
    PREFIX.store(c.into_raw(), Ordering::SeqCst);
    unsafe {
        // alternate stack so that a stack overflow can still be reported
        for sig in [libc::SIGABRT, libc::SIGSEGV, libc::SIGBUS, libc::SIGILL] {
            let mut sa: libc::sigaction = std::mem::zeroed();
            sa.sa_sigaction = on_signal as *const () as usize;
            sa.sa_flags = libc::SA_ONSTACK;
            libc::sigemptyset(&mut sa.sa_mask);
            libc::sigaction(sig, &sa, std::ptr::null_mut());
        }
    }
}

/// Gives the calling thread an alternate signal stack (std does this for its own threads
/// already when its SIGSEGV handler is installed, but our handler replaced it).
pub fn thread_altstack() {
    unsafe {
        let size = 64 * 1024;
        let mem = libc::mmap(
            std::ptr::null_mut(),
            size,
            libc::PROT_READ | libc::PROT_WRITE,
            libc::MAP_PRIVATE | libc::MAP_ANONYMOUS,
            -1,
            0,
        );
        if mem != libc::MAP_FAILED {
            let ss = libc::stack_t { ss_sp: mem, ss_flags: 0, ss_size: size };
            libc::sigaltstack(&ss, std::ptr::null_mut());
        }
    }
}

thread_local! {
    static MY_SLOT: std::cell::Cell<usize> = const { std::cell::Cell::new(usize::MAX) };
}

/// Claims slot `i` for the calling thread.
pub fn claim_slot(i: usize) {
    SLOTS[i % NSLOTS].tid.store(gettid(), Ordering::SeqCst);
    MY_SLOT.with(|c| c.set(i % NSLOTS));
}

/// The stack every `std::thread::spawn` gets unless the caller asks for something else.
pub const ORDINARY_STACK: usize = 2 << 20;

/// Runs `f` on a fresh thread with an ordinary stack (the workers of this harness have 256 MiB, which
/// would hide stack use that grows with the input - one frame per byte, per message, per list entry).
/// The in-flight case of the calling thread is lent to that thread for the duration of the call, so a
/// stack overflow (SIGSEGV on the guard page, handled on the alternate stack) is saved and reported
/// like any other crash. A panic inside `f` is returned as `Err`.
pub fn on_ordinary_stack<T: Send>(f: impl FnOnce() -> T + Send) -> Result<T, PanicInfo> {
    let slot = MY_SLOT.with(|c| c.get());
    let r = std::thread::scope(|s| {
        std::thread::Builder::new()
            .stack_size(ORDINARY_STACK)
            .spawn_scoped(s, move || {
                thread_altstack();
                if slot != usize::MAX {
                    SLOTS[slot].tid.store(gettid(), Ordering::SeqCst);
                }
                catch(f)
            })
            .expect("spawn")
            .join()
    });
    if slot != usize::MAX {
        SLOTS[slot].tid.store(gettid(), Ordering::SeqCst);
    }
    match r {
        Ok(v) => v,
        Err(_) => Err(PanicInfo { msg: "<thread ended by a panic outside catch>".into(), file: String::new(), line: 0 }),
    }
}

/// Publishes the serialised in-flight case of slot `i`. The buffer must stay alive and
/// unmodified until the next `publish`/`clear` for the slot.
pub fn publish(i: usize, data: &[u8]) {
    let s = &SLOTS[i % NSLOTS];
    s.len.store(0, Ordering::SeqCst);
    s.ptr.store(data.as_ptr() as *mut u8, Ordering::SeqCst);
    s.len.store(data.len(), Ordering::SeqCst);
}

pub fn clear(i: usize) {
    let s = &SLOTS[i % NSLOTS];
    s.len.store(0, Ordering::SeqCst);
    s.ptr.store(std::ptr::null_mut(), Ordering::SeqCst);
}
