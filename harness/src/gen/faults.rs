//! G6: fault scripts - a stream's bytes interleaved with finite sequences of
//! {WouldBlock, Interrupted, Other(kind)} at inter-byte positions.

use crate::drive::Step;
use crate::util::Kv;
use proptest::collection::vec;
use proptest::prelude::*;

/// Abstract fault: position as a fraction of the stream length (monotone map), kind, repeat count.
#[derive(Debug, Clone, PartialEq)]
pub struct FaultSpec {
    pub pos: u16,
    pub kind: Step,
    pub count: u8,
}

/// Concrete fault list: (position in 0..=len, step); several entries may share a position.
pub type Faults = Vec<(usize, Step)>;

pub fn soft_kind() -> impl Strategy<Value = Step> {
    prop_oneof![3 => Just(Step::WouldBlock), 2 => Just(Step::Interrupted)]
}

pub fn other_kind() -> impl Strategy<Value = Step> {
    (0u8..6).prop_map(Step::Other)
}

pub fn fault_specs(max: usize, other_weight: u32) -> impl Strategy<Value = Vec<FaultSpec>> {
    let kind = prop_oneof![
        6 => soft_kind(),
        other_weight => other_kind(),
    ];
    vec((any::<u16>(), kind, prop_oneof![4 => Just(1u8), 2 => 2u8..4, 1 => 4u8..9]).prop_map(|(pos, kind, count)| FaultSpec { pos, kind, count }), 0..max)
}

pub fn concretise(specs: &[FaultSpec], len: usize) -> Faults {
    let mut v: Faults = Vec::new();
    for s in specs {
        let pos = ((s.pos as usize) * (len + 1)) >> 16;
        for _ in 0..s.count.max(1) {
            v.push((pos, s.kind));
        }
    }
    v.sort_by_key(|x| x.0);
    v
}

/// Interleaves the stream with the faults: faults at position p come before byte p.
pub fn build_script(stream: &[u8], faults: &Faults) -> Vec<Step> {
    let mut out = Vec::with_capacity(stream.len() + faults.len());
    let mut fi = 0;
    for (i, b) in stream.iter().enumerate() {
        while fi < faults.len() && faults[fi].0 <= i {
            out.push(faults[fi].1);
            fi += 1;
        }
        out.push(Step::Byte(*b));
    }
    while fi < faults.len() {
        out.push(faults[fi].1);
        fi += 1;
    }
    out
}

pub fn step_name(s: &Step) -> String {
    match s {
        Step::Byte(b) => format!("byte{:02x}", b),
        Step::WouldBlock => "wouldblock".into(),
        Step::Interrupted => "interrupted".into(),
        Step::Other(k) => format!("other{}", k),
    }
}

pub fn step_parse(s: &str) -> Result<Step, String> {
    if s == "wouldblock" {
        Ok(Step::WouldBlock)
    } else if s == "interrupted" {
        Ok(Step::Interrupted)
    } else if let Some(k) = s.strip_prefix("other") {
        Ok(Step::Other(k.parse().map_err(|e| format!("{e}"))?))
    } else if let Some(b) = s.strip_prefix("byte") {
        Ok(Step::Byte(u8::from_str_radix(b, 16).map_err(|e| format!("{e}"))?))
    } else {
        Err(format!("bad step {s}"))
    }
}

pub fn faults_to_kv(kv: &mut Kv, faults: &Faults) {
    for (p, s) in faults {
        kv.put("fault", format!("{}:{}", p, step_name(s)));
    }
}

pub fn faults_from_kv(kv: &Kv) -> Result<Faults, String> {
    let mut v = Vec::new();
    for f in kv.all("fault") {
        let (p, s) = f.split_once(':').ok_or("bad fault")?;
        v.push((p.parse::<usize>().map_err(|e| format!("{e}"))?, step_parse(s)?));
    }
    v.sort_by_key(|x| x.0);
    Ok(v)
}
