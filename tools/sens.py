#!/usr/bin/env python3
"""Sensitivity runner: apply a patch to /repo, run checks, undo the patch.

  tools/sens.py <patch.diff> [ID ...]      (default: all 18)
Prints one line per check: DETECTED / missed / inconclusive, plus the VIOLATION line.
The patch is always reverted (git -C /repo checkout -- .) and the harness rebuilt afterwards.
"""
import os, subprocess, sys, time
VERIF = os.path.dirname(os.path.dirname(os.path.abspath(__file__)))

def sh(cmd, **kw):
    return subprocess.run(cmd, shell=True, text=True, stdout=subprocess.PIPE, stderr=subprocess.STDOUT, **kw)

def main():
    patch = os.path.abspath(sys.argv[1])
    ids = sys.argv[2:] or ["C%02d" % i for i in range(1, 19)]
    st = sh("git -C /repo status --porcelain").stdout.strip()
    if st:
        print("refusing: /repo has uncommitted changes:\n" + st); return 2
    r = sh("git -C /repo apply --check %s && git -C /repo apply %s" % (patch, patch))
    if r.returncode != 0:
        print("patch does not apply:\n" + r.stdout); return 2
    res = {}
    try:
        if "--tests" in os.environ.get("SENS_OPTS", ""):
            t = sh("cd /repo && cargo test --workspace --no-fail-fast --offline 2>&1 | grep -E '^test result|FAILED'")
            print(t.stdout)
        for i in ids:
            t0 = time.time()
            r = sh("./run %s quick" % i, cwd=VERIF)
            v = [l for l in r.stdout.splitlines() if l.startswith("VIOLATION")]
            detail = [l for l in r.stdout.splitlines() if l.startswith("  ")][:3]
            if r.returncode == 1 and v:
                res[i] = "DETECTED"
                print("%s DETECTED in %.1fs  %s" % (i, time.time() - t0, v[0]))
                for d in detail:
                    print("      " + d[:300])
            elif r.returncode == 0:
                res[i] = "missed"
                print("%s missed (%.1fs)" % (i, time.time() - t0))
            else:
                res[i] = "inconclusive"
                print("%s inconclusive (exit %d)\n%s" % (i, r.returncode, r.stdout[-1500:]))
    finally:
        sh("git -C /repo checkout -- .")
        if "--no-rebuild" not in os.environ.get("SENS_OPTS", ""):   # a batch driver rebuilds once at the end
            sh("./run build", cwd=VERIF)
    print("SUMMARY " + " ".join("%s=%s" % kv for kv in res.items()))
    return 0

if __name__ == "__main__":
    sys.exit(main())
