//! R4: tiling accountant. Consumes (consumed-count, event) pairs and maintains `boundary` =
//! first byte not yet accounted for. Every rule is a direct transcription of property C17.

use super::transport::{ref_frame, START};

#[derive(Debug, Clone, Copy, PartialEq, Eq)]
pub enum Seg {
    Frame,
    Discarded,
    Rejected,
    Tail,
}

pub struct Tiling<'a> {
    pub stream: &'a [u8],
    pub boundary: usize,
    pub segs: Vec<(Seg, usize, usize)>,
}

impl<'a> Tiling<'a> {
    pub fn new(stream: &'a [u8]) -> Self {
        Tiling { stream, boundary: 0, segs: Vec::new() }
    }

    /// `DiscardedBytes(n)` returned while consuming byte number `c` (1-based count).
    pub fn discarded(&mut self, c: usize, n: usize) -> Result<(), String> {
        if n == 0 {
            return Err(format!("DiscardedBytes(0) reported at byte {c}"));
        }
        if c < 8 || c > self.stream.len() || self.stream[c - 8..c] != START {
            return Err(format!("DiscardedBytes({n}) reported at byte {c}, which does not complete a start sequence"));
        }
        let expect = (c - 8).checked_sub(self.boundary);
        if expect != Some(n) {
            return Err(format!(
                "DiscardedBytes({n}) reported at byte {c}: the bytes between the previous boundary ({}) and the start sequence at {} number {:?}",
                self.boundary,
                c - 8,
                expect
            ));
        }
        self.segs.push((Seg::Discarded, self.boundary, c - 8));
        self.boundary = c - 8;
        Ok(())
    }

    /// `Ok(m)` returned at count `c`.
    pub fn frame(&mut self, c: usize, m: &[u8]) -> Result<(), String> {
        let f = ref_frame(m);
        if c < self.boundary || c > self.stream.len() || c - self.boundary != f.len() || self.stream[self.boundary..c] != f[..] {
            return Err(format!(
                "Ok(payload of {} bytes) reported at byte {c}: the bytes since the previous boundary ({}) are not exactly its {}-byte frame",
                m.len(),
                self.boundary,
                f.len()
            ));
        }
        self.segs.push((Seg::Frame, self.boundary, c));
        self.boundary = c;
        Ok(())
    }

    /// InvalidMessage / InvalidEsc / OutOfMemory at count `c`: the rejected frame spans boundary..c.
    pub fn rejected(&mut self, c: usize, what: &str) -> Result<(), String> {
        if c < self.boundary + 8 || self.boundary + 8 > self.stream.len() || self.stream[self.boundary..self.boundary + 8] != START {
            return Err(format!(
                "{what} reported at byte {c}, but the unaccounted bytes since boundary {} do not begin with a start sequence (noise before the frame was not reported)",
                self.boundary
            ));
        }
        self.segs.push((Seg::Rejected, self.boundary, c));
        self.boundary = c;
        Ok(())
    }

    /// finalize() / reset() / IoErr(_, n) after `c` consumed bytes reporting `n` discarded bytes (0 = none).
    pub fn end(&mut self, c: usize, n: usize, what: &str) -> Result<(), String> {
        if c < self.boundary || c - self.boundary != n {
            return Err(format!(
                "{what} after {c} bytes reported {n} discarded bytes, but {} bytes are unaccounted since boundary {}",
                c as i64 - self.boundary as i64,
                self.boundary
            ));
        }
        if n > 0 {
            self.segs.push((Seg::Tail, self.boundary, c));
        }
        self.boundary = c;
        Ok(())
    }

    pub fn kinds(&self) -> usize {
        let mut k = [false; 4];
        for (s, _, _) in &self.segs {
            k[*s as usize] = true;
        }
        k.iter().filter(|x| **x).count()
    }
}
