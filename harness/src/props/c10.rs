//! C10 - end to end: SmlReader yields exactly the transmitted files, in order.

use crate::drive::{BufKind, ScriptReader, VecK};
use crate::engine::caps::{cap_at_least, CAPS};
use crate::engine::{Fail, Obs, Prop, Tier};
use crate::gen::smlfile::cfile;
use crate::gen::stream::{noise, Noise};
use crate::props::parsers::show_events;
use crate::refmodel::conv::{revent_of, rfile_of};
use crate::refmodel::sml::*;
use crate::refmodel::transport::noise_admissible;
use crate::util::{hex_rle, hex_short, unhex_rle, Kv};
use crate::{ensure, with_cap};
use proptest::collection::vec;
use proptest::prelude::*;
use sml_rs::parser::complete::File;
use sml_rs::parser::streaming::Parser;
use sml_rs::parser::ParseError;
use sml_rs::transport::{decode, encode, encode_streaming, DecodeErr, ReadDecodedError};
use sml_rs::util::{Buffer, ByteSource, ByteSourceErr};
use sml_rs::{DecodedBytes, ReadParsedError, SmlReader};

pub struct C10;

#[derive(Debug, Clone)]
pub struct Case {
    /// (file, framed with the iterator encoder, corrupt one payload byte at this fraction, send this raw
    /// payload - G1 shapes, not an SML file - instead)
    pub files: Vec<(CFile, bool, Option<u16>, Option<crate::gen::payload::SizedPayload>)>,
    pub noises: Vec<Noise>,
    pub source: u8,
    pub buffer: u8,
    pub script: Vec<(bool, u8)>,
    /// io::Read source only: positions (fractions of the stream) at which the source reports `Interrupted` first
    pub interrupts: Vec<u16>,
    /// the capture ends inside one more transmission: (file, cut mode 0 = right after the start sequence /
    /// 1 = inside the start sequence / 2 = anywhere, fraction)
    pub tail_cut: Option<(CFile, u8, u16)>,
}

#[derive(Debug, Clone)]
pub struct Input {
    /// SML payloads (valid files) and whether each is framed with the iterator encoder
    pub files: Vec<(Vec<u8>, bool)>,
    /// files.len() + 1 noise strings
    pub noises: Vec<Vec<u8>>,
    /// 0 slice, 1 iterator, 2 io::Read
    pub source: u8,
    /// 0 default 8 KiB, 1 ArrayBuf<N >= max |file|>, 2 Vec
    pub buffer: u8,
    /// per call: (use next instead of read, target type 0 DecodedBytes / 1 File / 2 Parser, +3 = through read_nb / next_nb); cycled
    pub script: Vec<(bool, u8)>,
    /// io::Read source only: fractions (x/65536 of the stream length) at which the source first reports
    /// `ErrorKind::Interrupted` - a condition every std::io::Read consumer has to retry
    pub interrupts: Vec<u16>,
    /// bytes after the last noise string: a proper, non-empty prefix of one more frame (the capture ends
    /// inside a transmission), or empty
    pub tail_cut: Vec<u8>,
}

/// What one call produced, in owned form.
#[derive(Debug, Clone, PartialEq)]
enum Item {
    Bytes(Vec<u8>),
    File(RFile),
    Events(Vec<REvent>, Option<ParseError>),
    DecodeErr(DecodeErr),
    ParseErr(ParseError),
    /// (is end-of-input, discarded count)
    Io(bool, usize),
    None,
}

impl Item {
    fn short(&self) -> String {
        match self {
            Item::Bytes(b) => format!("Ok(bytes {})", hex_short(b, 16)),
            Item::File(f) => format!("Ok(File with {} messages)", f.msgs.len()),
            Item::Events(e, err) => format!("Ok(Parser -> {} err={:?})", show_events(e), err),
            Item::DecodeErr(e) => format!("Err(DecodeErr({:?}))", e),
            Item::ParseErr(e) => format!("Err(ParseErr({:?}))", e),
            Item::Io(eof, n) => format!("Err(IoErr({}, {}))", if *eof { "Eof" } else { "other" }, n),
            Item::None => "None".into(),
        }
    }
}

fn conv_dec<E: ByteSourceErr>(e: ReadDecodedError<E>) -> Item {
    match e {
        ReadDecodedError::DecodeErr(d) => Item::DecodeErr(d),
        ReadDecodedError::IoErr(e, n) => Item::Io(e.is_eof(), n),
    }
}

fn conv_parsed<E: ByteSourceErr + core::fmt::Debug>(e: ReadParsedError<E>) -> Item {
    match e {
        ReadParsedError::ParseErr(p) => Item::ParseErr(p),
        ReadParsedError::DecodeErr(d) => Item::DecodeErr(d),
        ReadParsedError::IoErr(e, n) => Item::Io(e.is_eof(), n),
    }
}

fn drain_parser(p: Parser<'_>, cap: usize) -> Item {
    let mut ev = Vec::new();
    let mut err = None;
    for (n, item) in p.enumerate() {
        if n > cap {
            err = Some(ParseError::LeftoverInput);
            break;
        }
        match item {
            Ok(e) => ev.push(revent_of(&e)),
            Err(e) => {
                err = Some(e);
                break;
            }
        }
    }
    Item::Events(ev, err)
}

fn nb_dec<T, E: ByteSourceErr>(r: nb::Result<T, ReadDecodedError<E>>) -> Result<T, Item> {
    match r {
        Ok(v) => Ok(v),
        // no source used by this check ever blocks: a would-block here is a wrong result
        Err(nb::Error::WouldBlock) => Err(Item::Io(false, usize::MAX)),
        Err(nb::Error::Other(e)) => Err(conv_dec(e)),
    }
}

fn nb_parsed<T, E: ByteSourceErr + core::fmt::Debug>(r: nb::Result<T, ReadParsedError<E>>) -> Result<T, Item> {
    match r {
        Ok(v) => Ok(v),
        Err(nb::Error::WouldBlock) => Err(Item::Io(false, usize::MAX)),
        Err(nb::Error::Other(e)) => Err(conv_parsed(e)),
    }
}

/// The same call through the non-blocking API (`read_nb` / `next_nb`).
fn call_nb<R, E, B>(reader: &mut SmlReader<R, B>, use_next: bool, target: u8, cap: usize) -> Item
where
    R: ByteSource<ReadError = E>,
    E: ByteSourceErr + core::fmt::Debug,
    B: Buffer,
{
    match (use_next, target) {
        (false, 0) => match nb_dec(reader.read_nb::<DecodedBytes>()) {
            Ok(b) => Item::Bytes(b.to_vec()),
            Err(i) => i,
        },
        (false, 1) => match nb_parsed(reader.read_nb::<File>()) {
            Ok(f) => Item::File(rfile_of(&f)),
            Err(i) => i,
        },
        (false, _) => match nb_dec(reader.read_nb::<Parser>()) {
            Ok(p) => drain_parser(p, cap),
            Err(i) => i,
        },
        (true, 0) => match nb_dec(reader.next_nb::<DecodedBytes>()) {
            Ok(None) => Item::None,
            Ok(Some(b)) => Item::Bytes(b.to_vec()),
            Err(i) => i,
        },
        (true, 1) => match nb_parsed(reader.next_nb::<File>()) {
            Ok(None) => Item::None,
            Ok(Some(f)) => Item::File(rfile_of(&f)),
            Err(i) => i,
        },
        (true, _) => match nb_dec(reader.next_nb::<Parser>()) {
            Ok(None) => Item::None,
            Ok(Some(p)) => drain_parser(p, cap),
            Err(i) => i,
        },
    }
}

fn call<R, E, B>(reader: &mut SmlReader<R, B>, use_next: bool, target: u8, cap: usize) -> Item
where
    R: ByteSource<ReadError = E>,
    E: ByteSourceErr + core::fmt::Debug,
    B: Buffer,
{
    // targets 3..=5 mean: the same target type through the non-blocking API
    if target >= 3 {
        return call_nb(reader, use_next, target - 3, cap);
    }
    match (use_next, target) {
        (false, 0) => match reader.read::<DecodedBytes>() {
            Ok(b) => Item::Bytes(b.to_vec()),
            Err(e) => conv_dec(e),
        },
        (false, 1) => match reader.read::<File>() {
            Ok(f) => Item::File(rfile_of(&f)),
            Err(e) => conv_parsed(e),
        },
        (false, _) => match reader.read::<Parser>() {
            Ok(p) => drain_parser(p, cap),
            Err(e) => conv_dec(e),
        },
        (true, 0) => match reader.next::<DecodedBytes>() {
            None => Item::None,
            Some(Ok(b)) => Item::Bytes(b.to_vec()),
            Some(Err(e)) => conv_dec(e),
        },
        (true, 1) => match reader.next::<File>() {
            None => Item::None,
            Some(Ok(f)) => Item::File(rfile_of(&f)),
            Some(Err(e)) => conv_parsed(e),
        },
        (true, _) => match reader.next::<Parser>() {
            None => Item::None,
            Some(Ok(p)) => drain_parser(p, cap),
            Some(Err(e)) => conv_dec(e),
        },
    }
}

#[derive(Debug, Clone)]
enum Expect {
    Discard(usize),
    File(usize),
    TailEof(usize),
    End,
}

/// Expected content of a payload: the independent reading, or (for a payload that is not a
/// valid SML file) the events up to the rejection.
#[derive(Debug, Clone)]
pub enum Content {
    Valid(RFile),
    Invalid(Vec<REvent>),
}

fn run_script<R, E, B>(mut reader: SmlReader<R, B>, i: &Input, expected_files: &[Content], exp: &[Expect], who: &str) -> Result<(), Fail>
where
    R: ByteSource<ReadError = E>,
    E: ByteSourceErr + core::fmt::Debug,
    B: Buffer,
{
    let cap = i.files.iter().map(|f| f.0.len()).max().unwrap_or(0) + 4;
    let mut log: Vec<String> = Vec::new();
    for (j, e) in exp.iter().chain(std::iter::repeat(&Expect::End).take(3)).enumerate() {
        let (use_next, target) = if i.script.is_empty() { (true, 0) } else { i.script[j % i.script.len()] };
        let got = call(&mut reader, use_next, target, cap);
        log.push(format!("{}{}::<{}> -> {}", if use_next { "next" } else { "read" }, if target >= 3 { "_nb" } else { "" }, ["DecodedBytes", "File", "Parser"][target as usize % 3], got.short()));
        let ok = match e {
            Expect::Discard(n) => got == Item::DecodeErr(DecodeErr::DiscardedBytes(*n)),
            Expect::File(k) => match (target % 3, &expected_files[*k]) {
                (0, _) => got == Item::Bytes(i.files[*k].0.clone()),
                (1, Content::Valid(f)) => got == Item::File(f.clone()),
                (_, Content::Valid(f)) => got == Item::Events(events_of(f), None),
                // a payload that is not a valid SML file: a parse error (kind not compared), with
                // the events before it intact
                (1, Content::Invalid(_)) => matches!(got, Item::ParseErr(_)),
                (_, Content::Invalid(ev)) => matches!(&got, Item::Events(e, Some(_)) if e == ev),
            },
            Expect::TailEof(n) => got == Item::Io(true, *n),
            Expect::End => {
                if use_next {
                    got == Item::None
                } else {
                    got == Item::Io(true, 0)
                }
            }
        };
        ensure!(
            ok,
            format!("reader-result-{}", match e {
                Expect::Discard(_) => "noise-not-reported-as-discarded-count",
                Expect::File(_) => "file-not-delivered",
                Expect::TailEof(_) => "trailing-noise-not-reported",
                Expect::End => "end-of-input-not-signalled",
            }),
            "{who}: call #{} expected {:?} but the calls so far returned:\n  {}\ntransmission: {} files, noise lengths {:?}",
            j + 1,
            e,
            log.join("\n  "),
            i.files.len(),
            i.noises.iter().map(|n| n.len()).collect::<Vec<_>>()
        );
    }
    Ok(())
}

fn io_script(stream: &[u8], interrupts: &[u16]) -> Vec<crate::drive::Step> {
    let faults: crate::gen::faults::Faults = {
        let mut v: Vec<(usize, crate::drive::Step)> = interrupts.iter().map(|x| (((*x as usize) * (stream.len() + 1)) >> 16, crate::drive::Step::Interrupted)).collect();
        v.sort_by_key(|f| f.0);
        v
    };
    crate::gen::faults::build_script(stream, &faults)
}

fn with_buffer<K: BufKind>(i: &Input, stream: &[u8], files: &[Content], exp: &[Expect]) -> Result<(), Fail> {
    let b = if K::CAP == usize::MAX { "Vec".to_string() } else { format!("ArrayBuf<{}>", K::CAP) };
    match i.source {
        0 => run_script(K::builder().from_slice(stream), i, files, exp, &format!("SmlReader<{b}>::from_slice")),
        1 => run_script(K::builder().from_iterator(stream.iter()), i, files, exp, &format!("SmlReader<{b}>::from_iterator")),
        _ => run_script(K::builder().from_reader(ScriptReader::new(io_script(stream, &i.interrupts)).0), i, files, exp, &format!("SmlReader<{b}>::from_reader")),
    }
}

pub fn eval_input(i: &Input, obs: &mut Obs) -> Result<(), Fail> {
    // expected content from the independent reader (the generator only produces valid files)
    let mut files = Vec::new();
    for (f, _) in &i.files {
        let r = read_events(f, true);
        match r.reject {
            None => files.push(Content::Valid(assemble(&r.events).expect("assembles"))),
            Some(_) => {
                obs.class("payload:not-a-valid-sml-file");
                files.push(Content::Invalid(r.events));
            }
        }
    }
    if i.noises.len() != i.files.len() + 1 || i.noises.iter().any(|g| !noise_admissible(g)) {
        obs.class("precondition-miss:noise");
        return Ok(());
    }
    // the transmission, framed by the crate's own encoders
    let mut stream = Vec::new();
    let mut exp = Vec::new();
    for (k, (f, streaming)) in i.files.iter().enumerate() {
        stream.extend_from_slice(&i.noises[k]);
        if !i.noises[k].is_empty() {
            exp.push(Expect::Discard(i.noises[k].len()));
        }
        let frame: Vec<u8> = if *streaming { encode_streaming(f).collect() } else { encode::<Vec<u8>>(f).map_err(|_| Fail::new("encode-oom", "encode::<Vec<u8>> failed"))? };
        stream.extend_from_slice(&frame);
        exp.push(Expect::File(k));
    }
    let tail = i.noises.last().unwrap();
    stream.extend_from_slice(tail);
    stream.extend_from_slice(&i.tail_cut);
    if i.tail_cut.len() >= 8 {
        // the capture ends inside a transmission: its start sequence ends the noise (reported as such),
        // and the end of input discards exactly the bytes of the unfinished transmission
        if i.tail_cut[..8] != crate::refmodel::transport::START {
            obs.class("precondition-miss:tail-cut");
            return Ok(());
        }
        if !tail.is_empty() {
            exp.push(Expect::Discard(tail.len()));
        }
        exp.push(Expect::TailEof(i.tail_cut.len()));
        obs.class(if i.tail_cut.len() == 8 { "tail:cut-right-after-start-sequence" } else { "tail:cut-inside-transmission" });
    } else if tail.len() + i.tail_cut.len() > 0 {
        // less than a start sequence: just more noise
        if !i.tail_cut.is_empty() {
            obs.class("tail:cut-inside-start-sequence");
        }
        exp.push(Expect::TailEof(tail.len() + i.tail_cut.len()));
    }
    exp.push(Expect::End);

    let maxlen = i.files.iter().map(|f| f.0.len()).max().unwrap_or(0).max(i.tail_cut.len());
    match i.buffer {
        0 if maxlen <= 8192 => match i.source {
            0 => run_script(SmlReader::from_slice(&stream), i, &files, &exp, "SmlReader::from_slice (default buffer)"),
            1 => run_script(SmlReader::from_iterator(stream.iter()), i, &files, &exp, "SmlReader::from_iterator (default buffer)"),
            _ => run_script(SmlReader::from_reader(ScriptReader::new(io_script(&stream, &i.interrupts)).0), i, &files, &exp, "SmlReader::from_reader (default buffer)"),
        },
        // a fixed buffer that holds the largest payload (the dispatch set ends at 140 000 bytes; beyond that
        // the growable buffer is used)
        1 if maxlen <= *CAPS.last().unwrap() => {
            let n = cap_at_least(maxlen).unwrap_or(*CAPS.last().unwrap());
            with_cap!(n, K => with_buffer::<K>(i, &stream, &files, &exp))
        }
        _ => with_buffer::<VecK>(i, &stream, &files, &exp),
    }?;

    // differential: composing the transport decoder and the parser by hand gives the same
    let by_hand = decode(&stream);
    let mut it = by_hand.iter();
    for e in &exp {
        match e {
            Expect::Discard(n) | Expect::TailEof(n) => {
                let g = it.next();
                ensure!(g == Some(&Err(DecodeErr::DiscardedBytes(*n))), "hand-composition-differs", "transport::decode over the same bytes yields {:?} where {:?} is expected", g, e);
            }
            Expect::File(k) => {
                let g = it.next();
                ensure!(g == Some(&Ok(i.files[*k].0.clone())), "hand-composition-differs", "transport::decode over the same bytes yields {:?} where file #{} is expected", g.map(|r| r.as_ref().map(|b| hex_short(b, 24))), k);
                let parsed = sml_rs::parser::complete::parse(&i.files[*k].0).map(|f| rfile_of(&f));
                let same = match &files[*k] {
                    Content::Valid(f) => parsed.as_ref().ok() == Some(f),
                    Content::Invalid(_) => parsed.is_err(),
                };
                ensure!(same, "hand-composition-differs", "complete::parse of file #{} yields {:?}", k, parsed);
                // the target-type adapters over plain bytes (`SmlParse<&[u8]>`) give the same
                use sml_rs::SmlParse;
                let via_adapter = <File as SmlParse<&[u8]>>::parse_from(&i.files[*k].0).map(|f| rfile_of(&f));
                ensure!(via_adapter.as_ref().ok() == parsed.as_ref().ok() && via_adapter.is_err() == parsed.is_err(), "adapter-differs", "File::parse_from(bytes) yields {:?}, complete::parse {:?}", via_adapter, parsed);
                let bytes_adapter = <DecodedBytes as SmlParse<&[u8]>>::parse_from(&i.files[*k].0);
                ensure!(bytes_adapter == Ok(&i.files[*k].0[..]), "adapter-differs", "DecodedBytes::parse_from(bytes) does not return the bytes");
                let p = <Parser as SmlParse<&[u8]>>::parse_from(&i.files[*k].0).unwrap();
                let via_parser = drain_parser(p, i.files[*k].0.len() + 4);
                let want = match &files[*k] {
                    Content::Valid(f) => matches!(&via_parser, Item::Events(e, None) if *e == events_of(f)),
                    Content::Invalid(ev) => matches!(&via_parser, Item::Events(e, Some(_)) if e == ev),
                };
                ensure!(want, "adapter-differs", "Parser::parse_from(bytes) yields {}", via_parser.short());
            }
            Expect::End => {
                ensure!(it.next().is_none(), "hand-composition-differs", "transport::decode yields more results than expected");
            }
        }
    }

    let n_noise = i.noises.iter().filter(|g| !g.is_empty()).count();
    let mut targets: Vec<u8> = i.script.iter().take(exp.len()).map(|s| s.1 % 3).collect();
    targets.sort();
    targets.dedup();
    obs.class(format!("source:{}", ["slice", "iterator", "io::Read"][i.source as usize % 3]));
    obs.class(format!("buffer:{}", ["default", "arraybuf", "vec"][i.buffer as usize % 3]));
    obs.class(format!("files:{}", i.files.len().min(6)));
    if !i.interrupts.is_empty() {
        obs.class("io::Read:with-interrupted");
    }
    obs.class(format!("target-types:{}", targets.len()));
    if i.script.iter().take(exp.len()).any(|s| s.1 >= 3) {
        obs.class("api:nb-calls-used");
    }
    for g in &i.noises {
        obs.class(Noise::suffix_class(g));
    }
    obs.nontrivial_if((i.files.len() >= 2 && n_noise >= 1) || targets.len() >= 2);
    Ok(())
}

impl Prop for C10 {
    const ID: &'static str = "C10";
    const RULE: &'static str = "k in 0..5 (thorough 0..9) G4 files, each framed by encode or encode_streaming, separated and surrounded by G3 noise (possibly empty; suffix classes: 0x1b runs, partial start sequences, end look-alikes), read through SmlReader over {slice, iterator, io::Read (a one-byte-at-a-time reader that also reports ErrorKind::Interrupted at 0..3 positions, which std::io consumers must retry)} with {default 8 KiB, ArrayBuf<N >= max|F|>, Vec} buffers under a per-call script choosing read vs next, blocking vs non-blocking API (read_nb / next_nb) and the target type (DecodedBytes, File, Parser). One payload in ten has a flipped bit and one in seven is not an SML file at all but a G1 payload (tail shapes: 0x1b runs, zero runs, alignment); then DecodedBytes must still be exactly the payload, File a parse error and Parser the events the reference reads before its rejection, then an error. Oracle: constructed expectation - for each i DiscardedBytes(|g_i|) if the noise is non-empty, then file i in the requested representation (bytes == payload, File == independent reading R3, Parser events == R3 events); after the last frame IoErr(Eof, |g_k|) once if |g_k| > 0, then next -> None / read -> IoErr(Eof, 0) on three further calls; in one case out of four the capture ends inside one more transmission (cut right after its start sequence, inside it, or anywhere): then DiscardedBytes(|g_k|) and IoErr(Eof, number of bytes of the unfinished transmission) are expected; and transport::decode + complete::parse composed by hand give the same. Non-trivial: >= 2 files with at least one non-empty noise, or >= 2 different target types in one script. Distinct = distinct inputs.";
    type Case = Case;
    type Input = Input;

    fn budget(tier: Tier) -> u64 {
        tier.pick(120_000, 1_500_000)
    }

    fn strategy(tier: Tier) -> BoxedStrategy<Case> {
        let maxk = tier.pick(5usize, 9);
        (0..maxk)
            .prop_flat_map(|k| {
                (
                    vec((cfile(false), any::<bool>(), prop::option::weighted(0.1, any::<u16>()), prop::option::weighted(0.15, crate::gen::payload::moderate_payload())), k),
                    vec(prop_oneof![2 => Just(Noise { toks: vec![], suffix: crate::gen::stream::NSuffix::None }), 3 => noise(300, true)], k + 1),
                    0u8..3,
                    0u8..3,
                    vec((any::<bool>(), 0u8..6), 1..8),
                    vec(any::<u16>(), 0..4),
                    prop::option::weighted(0.25, (crate::gen::smlfile::cfile_typical(), 0u8..3, any::<u16>())),
                )
            })
            .prop_map(|(files, noises, source, buffer, script, interrupts, tail_cut)| Case { files, noises, source, buffer, script, interrupts, tail_cut })
            .boxed()
    }

    fn lower(c: &Case) -> Input {
        Input {
            files: c
                .files
                .iter()
                .map(|(f, s, corrupt, raw)| {
                    if let Some(p) = raw {
                        return (p.bytes(), *s);
                    }
                    let mut b = write(f).bytes;
                    if let (Some(x), false) = (corrupt, b.is_empty()) {
                        let k = ((*x as usize) * b.len()) >> 16;
                        b[k] ^= 0x10;
                    }
                    (b, *s)
                })
                .collect(),
            noises: c.noises.iter().map(|n| n.bytes()).collect(),
            source: c.source,
            buffer: c.buffer,
            script: c.script.clone(),
            interrupts: if c.source == 2 { c.interrupts.clone() } else { vec![] },
            tail_cut: match &c.tail_cut {
                None => vec![],
                Some((f, mode, frac)) => {
                    let frame = crate::refmodel::transport::ref_frame(&write(f).bytes);
                    let k = match mode {
                        0 => 8,
                        1 => 1 + crate::engine::caps::pick(*frac, 7),
                        _ => 1 + crate::engine::caps::pick(*frac, frame.len() - 1),
                    };
                    frame[..k].to_vec()
                }
            },
        }
    }

    fn eval(i: &Input, obs: &mut Obs) -> Result<(), Fail> {
        eval_input(i, obs)
    }

    fn generator_counters() -> Vec<(String, u64)> {
        use std::sync::atomic::Ordering::Relaxed;
        vec![
            ("noise-strings-generated".into(), crate::gen::stream::NOISE_GENERATED.load(Relaxed)),
            ("noise-strings-rejected-by-precondition-filter".into(), crate::gen::stream::NOISE_REJECTED.load(Relaxed)),
        ]
    }

    fn to_kv(i: &Input) -> Kv {
        let mut kv = Kv::new();
        kv.put_u("source", i.source as u64).put_u("buffer", i.buffer as u64);
        for (f, s) in &i.files {
            kv.put("file", format!("{}:{}", *s as u8, hex_rle(f)));
        }
        for n in &i.noises {
            kv.put_b("noise", n);
        }
        for x in &i.interrupts {
            kv.put_u("interrupt_at", *x as u64);
        }
        kv.put_b("tail_cut", &i.tail_cut);
        for (n, t) in &i.script {
            kv.put("call", format!("{}:{}", if *n { "next" } else { "read" }, t));
        }
        kv
    }

    fn from_kv(kv: &Kv) -> Result<Input, String> {
        let mut files = Vec::new();
        for f in kv.all("file") {
            let (s, h) = f.split_once(':').ok_or("bad file")?;
            files.push((unhex_rle(h)?, s == "1"));
        }
        let mut noises = Vec::new();
        for n in kv.all("noise") {
            noises.push(unhex_rle(n)?);
        }
        let mut script = Vec::new();
        for c in kv.all("call") {
            let (n, t) = c.split_once(':').ok_or("bad call")?;
            script.push((n == "next", t.parse::<u8>().map_err(|e| e.to_string())? % 6));
        }
        let mut interrupts = Vec::new();
        for x in kv.all("interrupt_at") {
            interrupts.push(x.parse::<u16>().map_err(|e| e.to_string())?);
        }
        let tail_cut = if kv.all("tail_cut").next().is_none() { vec![] } else { kv.get_b("tail_cut")? };
        Ok(Input { files, noises, source: kv.get_u("source")? as u8 % 3, buffer: kv.get_u("buffer")? as u8 % 3, script, interrupts, tail_cut })
    }
}
