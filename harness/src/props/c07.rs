//! C07 - encoders emit exactly the Transport v1 wire format and agree with each other.

use crate::drive::BufKind;
use crate::engine::caps::CAPS;
use crate::engine::{Fail, Obs, Prop, Tier};
use crate::gen::payload::*;
use crate::refmodel::transport::ref_frame;
use crate::util::{hex_short, Kv};
use crate::{ensure, with_cap};
use proptest::prelude::*;
use sml_rs::transport::{encode, encode_streaming};
use sml_rs::util::OutOfMemory;

pub struct C07;

#[derive(Debug, Clone)]
pub enum Mode {
    Natural(SizedPayload),
    /// pick the capacity first, then a payload whose frame length is close to it
    NearCap { cap: u16, delta: i8, shape: Payload, seed: u64 },
}

#[derive(Debug, Clone)]
pub struct Case {
    pub mode: Mode,
    pub cap_sel: u16,
    pub extra: usize,
}

#[derive(Debug, Clone)]
pub struct Input {
    pub payload: Vec<u8>,
    pub cap: Option<usize>,
    pub extra: usize,
}

pub const EXH_ALPHABET: [u8; 5] = [0x00, 0x1b, 0x1a, 0x01, 0xa5];

pub fn exh_total(tier: Tier) -> (usize, u64) {
    let maxlen = tier.pick(6, 9);
    let mut total = 0u64;
    for l in 0..=maxlen {
        total += 5u64.pow(l as u32);
    }
    (maxlen, total)
}

/// Maps a global index to (length, index within that length).
pub fn exh_locate(mut idx: u64, maxlen: usize) -> (usize, u64) {
    for l in 0..=maxlen {
        let n = 5u64.pow(l as u32);
        if idx < n {
            return (l, idx);
        }
        idx -= n;
    }
    (maxlen, 0)
}

fn enc_arr<K: BufKind>(p: &[u8]) -> Result<Vec<u8>, OutOfMemory> {
    crate::drive::encode_any::<K::B>(p).map(|b| b.to_vec())
}

impl Prop for C07 {
    const ID: &'static str = "C07";
    const RULE: &'static str = "payloads from G1 (token shapes, forced tails, length classes up to 70k/200k, or a length chosen so that the frame is within +-8 of a fixed capacity) x {encode::<Vec>, encode_streaming, encode::<ArrayBuf<N>>}; oracle: byte-identical to the independent reference frame R2, iterator stays None on 1..8 (sometimes 100..400 or 70000) further calls, the iterator encoder also consumed through collect(), Vec::extend, Encoder::new, owned items and with size_hint() polled before every step, OutOfMemory iff N < |frame|. Non-trivial: payload has a 0x1b run >= 4, or |p| >= 256, or the capacity is within +-4 of the frame length. Distinct = distinct (payload, capacity, extra calls).";
    type Case = Case;
    type Input = Input;

    fn budget(tier: Tier) -> u64 {
        tier.pick(400_000, 4_000_000)
    }

    fn strategy(tier: Tier) -> BoxedStrategy<Case> {
        let big = tier.pick(70_000, 200_000);
        let mode = prop_oneof![
            3 => sized_payload(big).prop_map(Mode::Natural),
            2 => (any::<u16>(), -12i8..13, payload_small(), any::<u64>()).prop_map(|(cap, delta, shape, seed)| Mode::NearCap { cap, delta, shape, seed }),
        ];
        (mode, any::<u16>(), prop_oneof![12 => 1usize..9, 2 => 100usize..400, 1 => Just(70_000usize)]).prop_map(|(mode, cap_sel, extra)| Case { mode, cap_sel, extra }).boxed()
    }

    fn lower(c: &Case) -> Input {
        match &c.mode {
            Mode::Natural(sp) => {
                let payload = sp.bytes();
                let l = crate::refmodel::transport::ref_frame_len(&payload);
                // prefer a capacity close to the frame length if the set has one, else any
                let near: Vec<usize> = CAPS.iter().copied().filter(|n| (*n as i64 - l as i64).abs() <= 5).collect();
                let cap = if !near.is_empty() {
                    Some(near[crate::engine::caps::pick(c.cap_sel, near.len())])
                } else if c.cap_sel % 4 == 0 {
                    Some(CAPS[crate::engine::caps::pick(c.cap_sel, CAPS.len())])
                } else {
                    None
                };
                Input { payload, cap, extra: c.extra }
            }
            Mode::NearCap { cap, delta, shape, seed } => {
                let n = CAPS[crate::engine::caps::pick(*cap, CAPS.len())];
                let target = (n as i64 - 16 + *delta as i64).max(0) as usize;
                // very large capacities only rarely (cost)
                let payload = shape.bytes_with_len(target, *seed);
                Input { payload, cap: Some(n), extra: c.extra }
            }
        }
    }

    fn eval(i: &Input, obs: &mut Obs) -> Result<(), Fail> {
        let p = &i.payload;
        let frame = ref_frame(p);
        // buffer encoder, growable
        let v = encode::<Vec<u8>>(p);
        let v2 = crate::drive::encode_any::<Vec<u8>>(p);
        ensure!(v2.as_ref().ok() == Some(&frame), "encode-vec-mismatch", "encode::<Vec<u8>> over an iterator of kind {} ({}) = {:?}, reference frame = {}", crate::drive::iter_flavour(p), hex_short(p, 48), v2.as_ref().map(|b| hex_short(b, 64)), hex_short(&frame, 64));
        ensure!(v.as_ref().ok() == Some(&frame), "encode-vec-mismatch", "encode::<Vec<u8>>({}) = {:?}, reference frame = {}", hex_short(p, 48), v.as_ref().map(|b| hex_short(b, 64)), hex_short(&frame, 64));
        // iterator encoder with step cap
        let mut it = encode_streaming(p);
        let mut got = Vec::with_capacity(frame.len());
        let cap_steps = 2 * p.len() + 24;
        let mut ended = false;
        for _ in 0..=cap_steps {
            match it.next() {
                Some(b) => got.push(b),
                None => {
                    ended = true;
                    break;
                }
            }
        }
        ensure!(ended, "encode-streaming-endless", "encode_streaming({}) yielded more than {} bytes", hex_short(p, 48), cap_steps);
        ensure!(got == frame, "encode-streaming-mismatch", "encode_streaming({}) = {}, reference frame = {}", hex_short(p, 48), hex_short(&got, 64), hex_short(&frame, 64));
        for k in 0..i.extra {
            let x = it.next();
            ensure!(x.is_none(), "encode-streaming-resumes", "encode_streaming returned {:?} on call {} after its end", x, k + 1);
        }
        // the same iterator consumed the way callers do: collect / extend (std asks for size_hint() while the
        // vector grows), over borrowed and owned items, through Encoder::new, and with size_hint() polled
        // before every step
        let collected: Vec<u8> = encode_streaming(p).take(cap_steps + 1).collect();
        ensure!(collected == frame, "encode-streaming-mismatch", "encode_streaming({}).collect() = {}, reference frame = {}", hex_short(p, 48), hex_short(&collected, 64), hex_short(&frame, 64));
        let mut grown: Vec<u8> = Vec::with_capacity(i.extra % 7);
        grown.extend(sml_rs::transport::Encoder::new(p.iter().copied()).take(cap_steps + 1));
        ensure!(grown == frame, "encode-streaming-mismatch", "Vec::extend(Encoder::new({})) = {}, reference frame = {}", hex_short(p, 48), hex_short(&grown, 64), hex_short(&frame, 64));
        let mut it = encode_streaming(p.to_vec());
        let mut polled = Vec::with_capacity(frame.len());
        for _ in 0..=cap_steps {
            let _ = it.size_hint();
            match it.next() {
                Some(b) => polled.push(b),
                None => break,
            }
        }
        let _ = it.size_hint();
        ensure!(polled == frame, "encode-streaming-mismatch", "encode_streaming({}) with size_hint() polled before every step = {}, reference frame = {}", hex_short(p, 48), hex_short(&polled, 64), hex_short(&frame, 64));
        // a source that is not fused (it yields bytes again after its first None): the encoder must have stopped
        // asking at the first None
        {
            struct Resuming<'a> {
                inner: std::slice::Iter<'a, u8>,
                ended: bool,
            }
            impl<'a> Iterator for Resuming<'a> {
                type Item = u8;
                fn next(&mut self) -> Option<u8> {
                    if self.ended {
                        return Some(0xee);
                    }
                    let r = self.inner.next().copied();
                    if r.is_none() {
                        self.ended = true;
                    }
                    r
                }
            }
            let mut it = sml_rs::transport::Encoder::new(Resuming { inner: p.iter(), ended: false });
            let mut out = Vec::with_capacity(frame.len());
            for _ in 0..=cap_steps {
                match it.next() {
                    Some(b) => out.push(b),
                    None => break,
                }
            }
            ensure!(out == frame, "encode-streaming-mismatch", "Encoder::new over a source that yields bytes again after its first None ({}) = {}, reference frame = {}", hex_short(p, 48), hex_short(&out, 64), hex_short(&frame, 64));
        }
        // fixed buffer
        let mut near = false;
        if let Some(n) = i.cap {
            let r = with_cap!(n, K => enc_arr::<K>(p));
            if n >= frame.len() {
                ensure!(r.as_ref().ok() == Some(&frame), "encode-arraybuf-mismatch", "encode::<ArrayBuf<{}>>({}) = {:?}, expected Ok(frame of {} bytes)", n, hex_short(p, 48), r.as_ref().map(|b| hex_short(b, 64)), frame.len());
            } else {
                ensure!(r == Err(OutOfMemory), "encode-arraybuf-no-oom", "encode::<ArrayBuf<{}>>({}) = {:?}, expected Err(OutOfMemory) because the frame needs {} bytes", n, hex_short(p, 48), r.as_ref().map(|b| hex_short(b, 64)), frame.len());
            }
            near = (n as i64 - frame.len() as i64).abs() <= 4;
            obs.class(if n >= frame.len() { "cap:fits" } else { "cap:too-small" });
            if near {
                obs.class(format!("cap-minus-frame:{}", n as i64 - frame.len() as i64));
            }
        } else {
            obs.class("cap:none");
        }
        let run = longest_run(p, 0x1b);
        obs.class(format!("1b-run:{}", run.min(13)));
        obs.class(len_class(p.len()));
        obs.class(tail_class(p));
        obs.nontrivial_if(run >= 4 || p.len() >= 256 || near);
        Ok(())
    }

    fn generator_counters() -> Vec<(String, u64)> {
        vec![("payloads-with-a-checksum-byte-steered-to-1b/1a/00/01".into(), crate::gen::payload::CRC_GROUND.load(std::sync::atomic::Ordering::Relaxed))]
    }

    fn to_kv(i: &Input) -> Kv {
        let mut kv = Kv::new();
        kv.put_b("payload", &i.payload);
        kv.put("cap", i.cap.map(|c| c.to_string()).unwrap_or_else(|| "none".into()));
        kv.put_u("extra", i.extra as u64);
        kv
    }

    fn from_kv(kv: &Kv) -> Result<Input, String> {
        let cap = match kv.get("cap")? {
            "none" => None,
            s => Some(s.parse::<usize>().map_err(|e| e.to_string())?),
        };
        if let Some(c) = cap {
            if !CAPS.contains(&c) {
                return Err(format!("capacity {c} not in dispatch set"));
            }
        }
        Ok(Input { payload: kv.get_b("payload")?, cap, extra: kv.get_u("extra")? as usize })
    }

    fn exhaustive_desc(tier: Tier) -> String {
        let (maxlen, total) = exh_total(tier);
        format!("every payload over {{00,1b,1a,01,a5}} of length 0..={} ({} payloads), each with the smallest fitting and the largest non-fitting capacity from the set", maxlen, total)
    }

    fn exhaustive(tier: Tier, shard: usize, nshards: usize, f: &mut dyn FnMut(&Input) -> bool) {
        let (maxlen, total) = exh_total(tier);
        let mut p = Vec::new();
        let mut idx = shard as u64;
        while idx < total {
            let (l, k) = exh_locate(idx, maxlen);
            nth_word(&EXH_ALPHABET, l, k, &mut p);
            let fl = crate::refmodel::transport::ref_frame_len(&p);
            // alternate between exactly fitting / just too small capacity where the set has it
            let cap = if idx % 2 == 0 { CAPS.iter().copied().find(|c| *c >= fl) } else { CAPS.iter().copied().rev().find(|c| *c < fl) };
            if !f(&Input { payload: p.clone(), cap, extra: if idx % 97 == 0 { 300 } else { 2 } }) {
                return;
            }
            idx += nshards as u64;
        }
    }
}
