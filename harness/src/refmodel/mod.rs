//! Reference models (trusted base). `transport` and `sml` do not call into the crate;
//! `conv` only builds values of the crate's public types for comparison.
pub mod conv;
pub mod sml;
pub mod tiling;
pub mod transport;
