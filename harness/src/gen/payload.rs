//! G1: payload shapes. A payload is a token list (so it shrinks structurally) plus a forced
//! tail; `bytes_with_len` pads/truncates at the *front* so the tail class survives.

use proptest::collection::vec;
use proptest::prelude::*;

#[derive(Debug, Clone, PartialEq)]
pub enum PTok {
    Rand(Vec<u8>),
    /// k consecutive 0x1b
    Esc(usize),
    /// k consecutive 0x00
    Zeros(usize),
    /// first k bytes of the start sequence (k 1..=8)
    StartLike(usize),
    /// 1b1b1b1b 1a pp xx yy
    EndLike(u8, u8, u8),
    Byte(u8),
    /// pseudo-random filler (deterministic function of seed), cheap to shrink
    Fill { kind: u8, seed: u64, len: usize },
}

#[derive(Debug, Clone, PartialEq)]
pub struct Tail {
    /// literal escape (4x 1b, which the encoder doubles) directly before the tail
    pub lit_esc: bool,
    pub zeros: usize,
    pub esc: usize,
    /// zeros after the 1b run
    pub zeros_after: usize,
}

#[derive(Debug, Clone, PartialEq)]
pub struct Payload {
    pub toks: Vec<PTok>,
    pub tail: Tail,
}

pub fn xorshift(mut x: u64) -> u64 {
    x ^= x << 13;
    x ^= x >> 7;
    x ^= x << 17;
    x
}

pub fn fill(kind: u8, seed: u64, len: usize, out: &mut Vec<u8>) {
    let mut x = seed | 1;
    match kind % 3 {
        0 => {
            // uniform bytes
            let mut i = 0;
            while i < len {
                x = xorshift(x);
                let b = x.to_le_bytes();
                let n = (len - i).min(8);
                out.extend_from_slice(&b[..n]);
                i += n;
            }
        }
        1 => {
            // biased alphabet: many 1b / 00 / 01 / 1a
            for _ in 0..len {
                x = xorshift(x);
                let b = match x % 8 {
                    0 | 1 => 0x1b,
                    2 | 3 => 0x00,
                    4 => 0x01,
                    5 => 0x1a,
                    _ => (x >> 8) as u8,
                };
                out.push(b);
            }
        }
        _ => {
            let b = (seed & 0xff) as u8;
            out.extend(std::iter::repeat(b).take(len));
        }
    }
}

impl PTok {
    pub fn emit(&self, out: &mut Vec<u8>) {
        match self {
            PTok::Rand(v) => out.extend_from_slice(v),
            PTok::Esc(k) => out.extend(std::iter::repeat(0x1b).take(*k)),
            PTok::Zeros(k) => out.extend(std::iter::repeat(0).take(*k)),
            PTok::StartLike(k) => out.extend_from_slice(&crate::refmodel::transport::START[..(*k).min(8)]),
            PTok::EndLike(p, x, y) => out.extend_from_slice(&[0x1b, 0x1b, 0x1b, 0x1b, 0x1a, *p, *x, *y]),
            PTok::Byte(b) => out.push(*b),
            PTok::Fill { kind, seed, len } => fill(*kind, *seed, *len, out),
        }
    }
}

impl Payload {
    pub fn bytes(&self) -> Vec<u8> {
        let mut out = Vec::new();
        for t in &self.toks {
            t.emit(&mut out);
        }
        if self.tail.lit_esc {
            out.extend_from_slice(&[0x1b; 4]);
            // a literal escape directly followed by more 1b would merge runs; separate by the zeros/1b tail as given
        }
        out.extend(std::iter::repeat(0).take(self.tail.zeros));
        out.extend(std::iter::repeat(0x1b).take(self.tail.esc));
        out.extend(std::iter::repeat(0).take(self.tail.zeros_after));
        out
    }
    /// Exactly `target` bytes: pads at the front with filler, or keeps only the last `target` bytes.
    pub fn bytes_with_len(&self, target: usize, seed: u64) -> Vec<u8> {
        let body = self.bytes();
        if body.len() >= target {
            body[body.len() - target..].to_vec()
        } else {
            let mut out = Vec::with_capacity(target);
            fill((seed % 2) as u8, seed, target - body.len(), &mut out);
            out.extend_from_slice(&body);
            out
        }
    }
}

pub fn ptok() -> impl Strategy<Value = PTok> {
    prop_oneof![
        4 => vec(any::<u8>(), 1..12).prop_map(PTok::Rand),
        4 => (1usize..14).prop_map(PTok::Esc),
        3 => (1usize..10).prop_map(PTok::Zeros),
        2 => (1usize..9).prop_map(PTok::StartLike),
        2 => (prop_oneof![4 => 0u8..6, 1 => Just(0xf0u8), 1 => Just(0xffu8)], any::<u8>(), any::<u8>()).prop_map(|(p, x, y)| PTok::EndLike(p, x, y)),
        3 => prop_oneof![Just(0x1au8), Just(0x01), Just(0x00), Just(0x1b), Just(0xa5), any::<u8>()].prop_map(PTok::Byte),
        1 => (0u8..3, any::<u64>(), 0usize..80).prop_map(|(kind, seed, len)| PTok::Fill { kind, seed, len }),
    ]
}

pub fn tail() -> impl Strategy<Value = Tail> {
    (
        prop::bool::weighted(0.2),
        prop_oneof![3 => Just(0usize), 3 => 1usize..6, 1 => 6usize..12],
        prop_oneof![3 => Just(0usize), 4 => 1usize..6, 1 => 6usize..14],
        prop_oneof![4 => Just(0usize), 2 => 1usize..6],
    )
        .prop_map(|(lit_esc, zeros, esc, zeros_after)| Tail { lit_esc, zeros, esc, zeros_after })
}

/// Small payloads (token lists with a forced tail).
pub fn payload_small() -> impl Strategy<Value = Payload> {
    (vec(ptok(), 0..6), tail()).prop_map(|(toks, tail)| Payload { toks, tail })
}

/// Length classes of G1. Returns a length.
pub fn payload_len(max_big: usize) -> impl Strategy<Value = usize> {
    prop_oneof![
        30 => 0usize..65,
        6 => 250usize..263,
        4 => 1020usize..1031,
        3 => 4090usize..4101,
        3 => 8186usize..8199,
        1 => 65_530usize..65_546,
        1 => 8199usize..max_big.max(8200),
        // interior values: uniform below the default buffer size, and the neighbourhood of "round" sizes
        2 => 65usize..8186,
        2 => (prop::sample::select(vec![100usize, 128, 200, 500, 512, 1000, 2000, 2048, 3000, 4000, 5000, 6000, 7000, 8000]), 0usize..5).prop_map(|(c, d)| c + d - 2),
    ]
}

/// Payload bytes with the G1 length and tail classes.
#[derive(Debug, Clone, PartialEq)]
pub struct SizedPayload {
    pub shape: Payload,
    /// None: natural length of the shape
    pub len: Option<usize>,
    pub seed: u64,
}

/// Counters: payloads whose frame checksum was steered to a special byte value / attempts.
pub static CRC_GROUND: std::sync::atomic::AtomicU64 = std::sync::atomic::AtomicU64::new(0);

impl SizedPayload {
    pub fn bytes(&self) -> Vec<u8> {
        let mut b = match self.len {
            None => self.shape.bytes(),
            Some(n) => self.shape.bytes_with_len(n, self.seed),
        };
        // One payload in eight (of 6..=400 bytes) gets its first byte chosen such that a checksum byte of
        // its frame is one of the values that mean something to the decoder (0x1b, 0x1a, 0x00, 0x01): by
        // chance that is one frame in 256, too rare to meet a particular tail shape as well. The tail is
        // untouched; the choice is a function of `seed`, so it shrinks and replays like everything else.
        if self.seed % 8 == 0 && (6..=400).contains(&b.len()) {
            let want = [0x1bu8, 0x1a, 0x00, 0x01][((self.seed >> 3) % 4) as usize];
            let hi = (self.seed >> 5) % 2 == 1;
            let orig = b[0];
            let mut found = false;
            for v in 0..=255u8 {
                b[0] = orig.wrapping_add(v);
                let f = crate::refmodel::transport::ref_frame(&b);
                let c = if hi { f[f.len() - 1] } else { f[f.len() - 2] };
                if c == want {
                    found = true;
                    break;
                }
            }
            if found {
                CRC_GROUND.fetch_add(1, std::sync::atomic::Ordering::Relaxed);
            } else {
                b[0] = orig;
            }
        }
        b
    }
}

pub fn sized_payload(max_big: usize) -> impl Strategy<Value = SizedPayload> {
    (payload_small(), prop::option::weighted(0.5, payload_len(max_big)), any::<u64>())
        .prop_map(|(shape, len, seed)| SizedPayload { shape, len, seed })
}

/// Payloads of moderate size only (<= ~300 bytes), for checks that evaluate many front-ends per case.
pub fn moderate_payload() -> impl Strategy<Value = SizedPayload> {
    (
        payload_small(),
        prop::option::weighted(0.4, prop_oneof![6 => 0usize..65, 2 => 250usize..263, 1 => 65usize..300]),
        any::<u64>(),
    )
        .prop_map(|(shape, len, seed)| SizedPayload { shape, len, seed })
}

/// Tail classification of payload bytes for the evidence histogram.
pub fn tail_class(p: &[u8]) -> String {
    let mut i = p.len();
    let mut za = 0;
    while i > 0 && p[i - 1] == 0 {
        za += 1;
        i -= 1;
    }
    let mut e = 0;
    while i > 0 && p[i - 1] == 0x1b {
        e += 1;
        i -= 1;
    }
    format!("tail:1b{}-z{}-align{}", e.min(5), za.min(5), p.len() % 4)
}

pub fn len_class(n: usize) -> &'static str {
    match n {
        0 => "len:0",
        1..=64 => "len:1-64",
        65..=255 => "len:65-255",
        256..=1023 => "len:256-1023",
        1024..=8191 => "len:1024-8191",
        8192..=65535 => "len:8192-65535",
        _ => "len:>=65536",
    }
}

pub fn longest_run(p: &[u8], b: u8) -> usize {
    let mut best = 0;
    let mut cur = 0;
    for &x in p {
        if x == b {
            cur += 1;
            best = best.max(cur);
        } else {
            cur = 0;
        }
    }
    best
}

/// Non-trivial by the C01/C07 rule: contains a 1b run, a trailing zero, a start/end look-alike, or |p| >= 256.
pub fn payload_nontrivial(p: &[u8]) -> bool {
    p.len() >= 256
        || p.contains(&0x1b)
        || p.last() == Some(&0)
        || crate::refmodel::transport::find_sub(p, &[1, 1, 1, 1]).is_some()
}

/// All payloads over `alphabet` of length exactly `len`, index `idx` in 0..alphabet^len.
pub fn nth_word(alphabet: &[u8], len: usize, mut idx: u64, out: &mut Vec<u8>) {
    out.clear();
    for _ in 0..len {
        out.push(alphabet[(idx % alphabet.len() as u64) as usize]);
        idx /= alphabet.len() as u64;
    }
}
