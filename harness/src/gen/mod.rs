//! Shared generators (proptest strategies).
pub mod payload;
pub mod stream;
