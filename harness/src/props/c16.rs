//! C16 - buffer need equals payload length; overflow is an error, never truncation.

use crate::drive::{self, BufKind, Ev, Poll};
use crate::engine::caps::{pick, CAPS};
use crate::engine::{Fail, Obs, Prop, Tier};
use crate::gen::payload::*;
use crate::refmodel::transport::{ends_with_canonical_frame, find_sub, ref_frame, START};
use crate::util::{hex_short, Kv};
use crate::{ensure, with_cap};
use proptest::prelude::*;
use sml_rs::transport::DecodeErr;

pub struct C16;

#[derive(Debug, Clone)]
pub struct Case {
    pub cap: u16,
    /// |m| = N + delta
    pub delta: i32,
    pub shape: Payload,
    pub seed: u64,
    pub m2: Payload,
}

#[derive(Debug, Clone)]
pub struct Input {
    pub cap: usize,
    pub m: Vec<u8>,
    pub m2: Vec<u8>,
}

fn judge(evs: &[(Option<usize>, Ev)], i: &Input, f1: usize, total: usize, guard: bool, who: &str, stream: &[u8]) -> Result<(), Fail> {
    let n = i.cap;
    let shown: Vec<String> = evs.iter().map(|(p, e)| format!("{}{}", p.map(|p| format!("@{p}:")).unwrap_or_default(), e.short())).collect();
    let ctx = || format!("{who} with capacity {n}: frame of payload {} ({} bytes, tail {}) followed by frame of {} ({} bytes) yields [{}]", hex_short(&i.m, 40), i.m.len(), tail_class(&i.m), hex_short(&i.m2, 24), i.m2.len(), shown.join(", "));
    if i.m.len() <= n {
        let ok = evs.len() == 2
            && evs[0].1 == Ev::Msg(i.m.clone())
            && evs[1].1 == Ev::Msg(i.m2.clone())
            && evs[0].0.map(|p| p == f1).unwrap_or(true)
            && evs[1].0.map(|p| p == total).unwrap_or(true);
        ensure!(ok, "payload-that-fits-not-decoded", "{}; expected exactly [Ok(m) at byte {}, Ok(m2) at byte {}] because |m| = {} <= capacity", ctx(), f1, total, i.m.len());
    } else {
        ensure!(matches!(evs.first(), Some((_, Ev::Err(DecodeErr::OutOfMemory)))), "overflow-not-reported-as-out-of-memory", "{}; expected the first event of frame 1 to be Err(OutOfMemory) because |m| = {} > capacity", ctx(), i.m.len());
        if let Some((Some(p), _)) = evs.first() {
            ensure!(*p <= f1, "overflow-reported-late", "{}; OutOfMemory was reported after frame 1 had ended (byte {} > {})", ctx(), p, f1);
        }
        ensure!(evs.last().map(|e| &e.1) == Some(&Ev::Msg(i.m2.clone())) && evs.last().unwrap().0.map(|p| p == total).unwrap_or(true), "decoder-not-ready-after-overflow", "{}; expected the last event to be Ok(m2) at byte {}", ctx(), total);
        for (p, e) in &evs[..evs.len() - 1] {
            if let Ev::Msg(x) = e {
                // a payload reported from the remains of the overflowing frame
                let acceptable = guard && p.map(|p| p <= stream.len() && ends_with_canonical_frame(&stream[..p], x) && p - crate::refmodel::transport::ref_frame_len(x) > 0).unwrap_or(true);
                ensure!(acceptable, "shortened-or-altered-payload-after-overflow", "{}; a payload was reported although frame 1 does not fit the buffer", ctx());
            }
        }
    }
    Ok(())
}

fn run<K: BufKind>(i: &Input, obs: &mut Obs) -> Result<(), Fail> {
    let fr1 = ref_frame(&i.m);
    let fr2 = ref_frame(&i.m2);
    let mut stream = fr1.clone();
    stream.extend_from_slice(&fr2);
    let guard = find_sub(&fr1[8..], &START).is_some();
    if guard {
        obs.class("guard:wire-form-contains-start");
    }
    let (f1, total) = (fr1.len(), stream.len());
    // push decoder
    let (evs, fin) = drive::push_decoder::<K>(&stream);
    let evs: Vec<(Option<usize>, Ev)> = evs.into_iter().map(|(p, e)| (Some(p), e)).collect();
    judge(&evs, i, f1, total, guard, "Decoder<ArrayBuf<N>>::push_byte", &stream)?;
    ensure!(fin.is_none(), "leftover-after-last-frame", "finalize() after the second frame returned {:?}", fin);
    // the same two frames with a boundary call between them (finalize() or reset() right after frame 1, i.e.
    // with nothing pending): the second frame must still get the whole buffer
    {
        use sml_rs::transport::Decoder;
        let mut dec = Decoder::<K::B>::new();
        let mut ev2: Vec<(usize, Ev)> = Vec::new();
        drive::push_all(&mut dec, &fr1, 0, &mut ev2);
        let between = if (i.m.len() + i.m2.len()) % 2 == 0 {
            dec.finalize().map(|e| format!("finalize() = {:?}", e))
        } else {
            let n = dec.reset();
            if i.m.len() <= i.cap && n != 0 { Some(format!("reset() = {}", n)) } else { None }
        };
        if i.m.len() <= i.cap {
            ensure!(between.is_none(), "leftover-after-delivered-frame", "Decoder<ArrayBuf<{}>>: right after the delivered frame of a {}-byte payload, {}", i.cap, i.m.len(), between.unwrap_or_default());
        }
        drive::push_all(&mut dec, &fr2, f1, &mut ev2);
        // whatever the boundary call reported for an overflowed frame 1 (its leftover count) is not an event here
        let ev2: Vec<(Option<usize>, Ev)> = ev2.into_iter().map(|(p, e)| (Some(p), e)).collect();
        judge(&ev2, i, f1, total, guard, "Decoder<ArrayBuf<N>>::push_byte with finalize() / reset() between the frames", &stream)?;
    }
    // decode_streaming
    let ds = drive::decode_streaming_fn::<K>(&stream, 1).map_err(|m| Fail::new("decode-streaming-step-cap", m))?;
    let ds: Vec<(Option<usize>, Ev)> = ds.into_iter().map(|e| (None, e)).collect();
    judge(&ds, i, f1, total, guard, "decode_streaming::<ArrayBuf<N>>", &stream)?;
    // SmlReader::with_static_buffer::<N>() over an iterator (positions) and over a slice
    let mut r = drive::reader_iter::<K>(&stream, Poll::Next, 1).map_err(|m| Fail::new("reader-step-cap", m))?;
    ensure!(r.pop().map(|e| e.1) == Some(Ev::End), "reader-end", "reader did not end with None");
    let r: Vec<(Option<usize>, Ev)> = r.into_iter().map(|(p, e)| (Some(p), e)).collect();
    judge(&r, i, f1, total, guard, "SmlReader::with_static_buffer::<N>().from_iterator.next", &stream)?;
    let mut r = drive::reader_slice::<K>(&stream, Poll::Read, 0).map_err(|m| Fail::new("reader-step-cap", m))?;
    ensure!(r.pop() == Some(Ev::IoEof(0)), "reader-end", "reader did not end with IoErr(Eof, 0)");
    let r: Vec<(Option<usize>, Ev)> = r.into_iter().map(|e| (None, e)).collect();
    judge(&r, i, f1, total, guard, "SmlReader::with_static_buffer::<N>().from_slice.read", &stream)?;
    // ... and over the embedded-hal source (non-blocking API; a serial source has no end of input)
    {
        let fe = crate::props::c11::Fe { api: 2, poll_next: (i.m.len() + i.cap) % 2 == 0, cap: Some(K::CAP) };
        let r = crate::props::c11::run_cfg(fe, &drive::script_of(&stream)).map_err(|m| Fail::new("reader-step-cap", m))?;
        let r: Vec<(Option<usize>, Ev)> = r.into_iter().map(|(p, e)| (Some(p), e)).collect();
        judge(&r, i, f1, total, guard, "SmlReader::with_static_buffer::<N>().from_eh_reader (non-blocking API)", &stream)?;
    }
    if K::CAP == 8192 {
        let mut r = drive::reader_slice_default(&stream, Poll::Next, 1).map_err(|m| Fail::new("reader-step-cap", m))?;
        ensure!(r.pop() == Some(Ev::End), "reader-end", "default reader did not end with None");
        let r: Vec<(Option<usize>, Ev)> = r.into_iter().map(|e| (None, e)).collect();
        judge(&r, i, f1, total, guard, "SmlReader::from_slice (default 8 KiB buffer)", &stream)?;
        obs.class("default-reader-buffer");
    }
    Ok(())
}

pub fn eval_input(i: &Input, obs: &mut Obs) -> Result<(), Fail> {
    with_cap!(i.cap, K => run::<K>(i, obs))?;
    let d = i.m.len() as i64 - i.cap as i64;
    obs.class(format!("len-minus-cap:{}", d.clamp(-3, 8)));
    obs.class(tail_class(&i.m));
    obs.class(format!("cap-class:{}", match i.cap {
        0..=24 => "0-24",
        25..=257 => "31-257",
        258..=8193 => "1023-8193",
        _ => ">=16384",
    }));
    let special_tail = i.m.last().map(|b| *b == 0 || *b == 0x1b).unwrap_or(false);
    obs.nontrivial_if(d > 0 || (d == 0 && special_tail));
    Ok(())
}

const EXH_ALPHA: [u8; 3] = [0x00, 0x1b, 0xa5];

fn exh_plan(tier: Tier) -> Vec<(usize, usize, u64)> {
    // (N, len, count)
    let maxn = tier.pick(8, 11);
    let mut v = Vec::new();
    for n in 0..=maxn {
        for l in 0..=n + 2 {
            v.push((n, l, 3u64.pow(l as u32)));
        }
    }
    v
}

impl Prop for C16 {
    const ID: &'static str = "C16";
    const RULE: &'static str = "capacity N from the dispatch set (0..24 dense, triples around 2^5..2^16 and 8192, 70000, 140000) x payload m with |m| = N+delta (delta in {-2,-1,0} fits; {1,2,3,7,random} does not) and tails from the G1 matrix (zero runs 0..11, 0x1b runs 0..13, literal escape last) x a second payload m2 with |m2| <= N; front-ends Decoder<ArrayBuf<N>>, decode_streaming::<ArrayBuf<N>>, SmlReader::with_static_buffer::<N>() over iterator and slice, and the default reader when N = 8192. Oracle: |m| <= N => exactly [Ok(m) at the last byte of frame 1, Ok(m2) at the last byte of frame 2]; |m| > N => first event Err(OutOfMemory) inside frame 1, no payload from frame 1, last event Ok(m2) at its last byte. Non-trivial: |m| > N, or |m| = N with a zero / 0x1b tail. Distinct = distinct (N, m, m2).";
    type Case = Case;
    type Input = Input;

    fn budget(tier: Tier) -> u64 {
        tier.pick(100_000, 3_000_000)
    }

    fn strategy(_tier: Tier) -> BoxedStrategy<Case> {
        let delta = prop_oneof![2 => Just(-2i32), 3 => Just(-1), 8 => Just(0), 5 => Just(1), 3 => Just(2), 2 => Just(3), 1 => Just(7), 1 => 4i32..40];
        (any::<u16>(), delta, payload_small(), any::<u64>(), payload_small())
            .prop_map(|(cap, delta, shape, seed, m2)| Case { cap, delta, shape, seed, m2 })
            .boxed()
    }

    fn lower(c: &Case) -> Input {
        // large capacities are expensive: map 80% of the selector range to N <= 257
        let small = CAPS.iter().filter(|n| **n <= 257).count();
        let idx = if c.cap % 5 != 0 { pick(c.cap, small) } else { small + pick(c.cap, CAPS.len() - small) };
        let n = CAPS[idx];
        let len = (n as i64 + c.delta as i64).max(0) as usize;
        let m = c.shape.bytes_with_len(len, c.seed);
        let mut m2 = c.m2.bytes();
        m2.truncate(n);
        Input { cap: n, m, m2 }
    }

    fn eval(i: &Input, obs: &mut Obs) -> Result<(), Fail> {
        eval_input(i, obs)
    }

    fn to_kv(i: &Input) -> Kv {
        let mut kv = Kv::new();
        kv.put_u("cap", i.cap as u64).put_b("m", &i.m).put_b("m2", &i.m2);
        kv
    }

    fn from_kv(kv: &Kv) -> Result<Input, String> {
        let cap = kv.get_u("cap")? as usize;
        if !CAPS.contains(&cap) {
            return Err(format!("capacity {cap} not in dispatch set"));
        }
        let m2 = kv.get_b("m2")?;
        if m2.len() > cap {
            return Err("m2 must fit the capacity".into());
        }
        Ok(Input { cap, m: kv.get_b("m")?, m2 })
    }

    fn exhaustive_desc(tier: Tier) -> String {
        let plan = exh_plan(tier);
        let total: u64 = plan.iter().map(|x| x.2).sum();
        format!("for every N in 0..={} every payload over {{00,1b,a5}} with |m| <= N+2 ({} (N, m) pairs), each followed by a fixed second frame", tier.pick(8, 11), total)
    }

    fn exhaustive(tier: Tier, shard: usize, nshards: usize, f: &mut dyn FnMut(&Input) -> bool) {
        let mut g = 0u64;
        let mut m = Vec::new();
        for (n, l, count) in exh_plan(tier) {
            for k in 0..count {
                if g % nshards as u64 == shard as u64 {
                    nth_word(&EXH_ALPHA, l, k, &mut m);
                    let m2: Vec<u8> = [0xa5u8, 0x00, 0x1b, 0x07][..n.min(4)].to_vec();
                    if !f(&Input { cap: n, m: m.clone(), m2 }) {
                        return;
                    }
                }
                g += 1;
            }
        }
    }
}
