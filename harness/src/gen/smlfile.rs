//! G4: abstract SML files with encoding choices (strategies for the `C*` tree of refmodel::sml).

use crate::refmodel::sml::*;
use proptest::collection::vec;
use proptest::prelude::*;

/// extra (non-minimal) TLF bytes
pub fn extra() -> impl Strategy<Value = u8> {
    prop_oneof![10 => Just(0u8), 2 => Just(1u8), 1 => 2u8..4]
}

pub fn octet_len(max: usize) -> BoxedStrategy<usize> {
    if max <= 20 {
        (0..=max).boxed()
    } else {
        prop_oneof![
            12 => 0usize..13,
            4 => 13usize..18,        // crosses the 14/15 single-byte TLF limit
            2 => 18usize..40,
            1 => 250usize..258,      // crosses the 253/254 two-byte TLF limit
            1 => 40usize..max.max(41),
        ]
        .boxed()
    }
}

pub fn octet(max: usize) -> impl Strategy<Value = COctet> {
    (octet_len(max), any::<u64>(), extra(), 0u8..4).prop_map(|(len, seed, extra, kind)| {
        let mut data = Vec::with_capacity(len);
        match kind {
            0 => data.extend(std::iter::repeat(0x01).take(len)), // looks like "absent" markers
            _ => crate::gen::payload::fill(0, seed, len, &mut data),
        }
        COctet { data, extra }
    })
}

fn lead_byte() -> impl Strategy<Value = u8> {
    prop_oneof![Just(0x00u8), Just(0x01), Just(0x7f), Just(0x80), Just(0xfe), Just(0xff), any::<u8>()]
}

/// Raw big-endian value of `w` bytes (1..=8) with a boundary leading byte.
fn raw_bytes(w: u8) -> impl Strategy<Value = u64> {
    (lead_byte(), any::<u64>(), prop::bool::weighted(0.2)).prop_map(move |(lead, rest, zero_rest)| {
        let bits = 8 * (w as u32 - 1); // <= 56
        let low = if bits == 0 || zero_rest { 0 } else { rest & ((1u64 << bits) - 1) };
        ((lead as u64) << bits) | low
    })
}

pub fn cuint(min_w: u8, max_w: u8) -> impl Strategy<Value = CUint> {
    (min_w..=max_w).prop_flat_map(|w| (Just(w), raw_bytes(w), extra())).prop_map(|(width, value, extra)| CUint { value, width, extra })
}

pub fn cint(min_w: u8, max_w: u8) -> impl Strategy<Value = CInt> {
    (min_w..=max_w).prop_flat_map(|w| (Just(w), raw_bytes(w), extra())).prop_map(|(width, raw, extra)| {
        let shift = 64 - 8 * width as u32;
        let value = ((raw << shift) as i64) >> shift;
        CInt { value, width, extra }
    })
}

pub fn ctime() -> impl Strategy<Value = CTime> {
    prop_oneof![
        3 => (extra(), extra(), cuint(1, 4)).prop_map(|(list_extra, tag_extra, secs)| CTime::Std { list_extra, tag_extra, secs }),
        1 => (any::<u32>(), extra()).prop_map(|(secs, extra)| CTime::Bare { secs, extra }),
    ]
}

/// Octet strings whose length needs a TLF of four or five bytes (beyond 2^12 and 2^16): rare, one value in ~700.
pub fn octet_huge() -> impl Strategy<Value = COctet> {
    (prop_oneof![2 => 4090usize..4100, 1 => 65_530usize..65_545, 1 => 4100usize..70_000], any::<u64>()).prop_map(|(len, seed)| {
        let mut data = Vec::with_capacity(len);
        crate::gen::payload::fill(2, seed, len, &mut data);
        COctet { data, extra: 0 }
    })
}

pub fn cvalue() -> impl Strategy<Value = CValue> {
    prop_oneof![
        200 => prop_oneof![Just(0u8), Just(1u8), Just(0xffu8), any::<u8>()].prop_map(CValue::Bool),
        300 => octet(300).prop_map(CValue::Bytes),
        3 => octet_huge().prop_map(CValue::Bytes),
        500 => cint(1, 8).prop_map(CValue::Int),
        500 => cuint(1, 8).prop_map(CValue::Uint),
        100 => (extra(), extra(), ctime()).prop_map(|(list_extra, tag_extra, time)| CValue::ListTime { list_extra, tag_extra, time }),
    ]
}

fn opt<S: Strategy + 'static>(p: f64, s: S) -> impl Strategy<Value = Option<S::Value>>
where
    S::Value: Clone + 'static,
{
    prop::option::weighted(p, s)
}

pub fn centry() -> impl Strategy<Value = CEntry> {
    (extra(), octet(20), opt(0.5, cuint(1, 8)), opt(0.3, ctime()), opt(0.6, cuint(1, 1)), opt(0.6, cint(1, 1)), cvalue(), opt(0.2, octet(40)))
        .prop_map(|(list_extra, obj_name, status, val_time, unit, scaler, value, sig)| CEntry { list_extra, obj_name, status, val_time, unit, scaler, value, sig })
}

/// Degenerate list entries: empty or tiny object names, (almost) all optional fields absent, the smallest
/// values - down to the 8-byte entry `77 01 01 01 01 01 01 01` - so that lists with many entries in very
/// few bytes occur (a reader that relates a declared count to the remaining input sees its extreme here).
pub fn centry_min() -> impl Strategy<Value = CEntry> {
    let tiny_value = prop_oneof![
        4 => Just(CValue::Bytes(COctet::plain(&[]))),
        1 => any::<u8>().prop_map(CValue::Bool),
        1 => any::<u8>().prop_map(|v| CValue::Uint(CUint::w(v as u64, 1))),
        1 => any::<i8>().prop_map(|v| CValue::Int(CInt { value: v as i64, width: 1, extra: 0 })),
        1 => octet(3).prop_map(CValue::Bytes),
    ];
    (prop_oneof![3 => Just(0usize), 1 => 1usize..7], any::<u64>(), opt(0.05, cuint(1, 1)), opt(0.05, cuint(1, 1)), opt(0.05, cint(1, 1)), tiny_value, opt(0.05, octet(2))).prop_map(|(n, seed, status, unit, scaler, value, sig)| {
        let mut name = Vec::new();
        crate::gen::payload::fill(0, seed, n, &mut name);
        CEntry { list_extra: 0, obj_name: COctet::plain(&name), status, val_time: None, unit, scaler, value, sig }
    })
}

pub fn entries(tier_big: bool) -> BoxedStrategy<Vec<CEntry>> {
    if tier_big {
        prop_oneof![
            2 => Just(vec![]),
            10 => vec(centry(), 1..15),
            4 => vec(centry(), 14..19),   // crosses 15/16: two-byte list TLF
            1 => vec(centry(), 19..60),
            1 => vec(centry(), 60..250),  // interior list lengths
            2 => vec(centry_min(), 1..60),
            1 => vec(centry(), 250..262), // crosses 255/256: three-nibble list TLF
        ]
        .boxed()
    } else {
        prop_oneof![
            16 => Just(vec![]),
            96 => vec(centry(), 1..14),
            24 => vec(centry(), 14..19),
            8 => vec(centry(), 19..41),
            1 => vec(centry(), 41..250),    // interior list lengths
            12 => vec(centry_min(), 1..40),
            1 => vec(centry(), 250..262),   // rare in the quick tier: messages beyond 4 KiB
        ]
        .boxed()
    }
}

pub fn cbody(tier_big: bool) -> impl Strategy<Value = CBody> {
    prop_oneof![
        2 => (extra(), opt(0.2, octet(20)), opt(0.4, octet(20)), octet(20), octet(20), opt(0.5, ctime()), opt(0.3, cuint(1, 1)))
            .prop_map(|(list_extra, codepage, client_id, req_file_id, server_id, ref_time, sml_version)| CBody::Open { list_extra, codepage, client_id, req_file_id, server_id, ref_time, sml_version }),
        2 => (extra(), opt(0.3, octet(40))).prop_map(|(list_extra, sig)| CBody::Close { list_extra, sig }),
        5 => (extra(), opt(0.3, octet(20)), octet(20), opt(0.5, octet(20)), opt(0.5, ctime()), extra(), entries(tier_big), opt(0.3, octet(40)), opt(0.3, ctime()))
            .prop_map(|(list_extra, client_id, server_id, list_name, act_sensor_time, vals_extra, entries, list_sig, act_gateway_time)| CBody::GetList {
                list_extra, client_id, server_id, list_name, act_sensor_time, vals_extra, entries, list_sig, act_gateway_time,
            }),
    ]
}

pub fn cmsg(tier_big: bool) -> impl Strategy<Value = CMsg> {
    (extra(), octet(20), cuint(1, 1), cuint(1, 1), extra(), 2u8..5, extra(), cbody(tier_big), any::<bool>(), extra())
        .prop_map(|(list_extra, transaction_id, group_no, abort_on_error, body_list_extra, tag_width, tag_extra, body, crc_short, crc_extra)| CMsg {
            list_extra, transaction_id, group_no, abort_on_error, body_list_extra, tag_width, tag_extra, body, crc_short, crc_extra,
        })
}

/// A small message (close, open, or a list response with at most two entries) for files with many messages.
pub fn cmsg_small() -> impl Strategy<Value = CMsg> {
    let body = prop_oneof![
        3 => (extra(), opt(0.3, octet(8))).prop_map(|(list_extra, sig)| CBody::Close { list_extra, sig }),
        1 => (extra(), octet(8), octet(8), opt(0.5, ctime())).prop_map(|(list_extra, req_file_id, server_id, ref_time)| CBody::Open { list_extra, codepage: None, client_id: None, req_file_id, server_id, ref_time, sml_version: None }),
        2 => (extra(), octet(8), vec(centry(), 0..3), opt(0.3, ctime())).prop_map(|(list_extra, server_id, entries, act_gateway_time)| CBody::GetList {
            list_extra, client_id: None, server_id, list_name: None, act_sensor_time: None, vals_extra: 0, entries, list_sig: None, act_gateway_time,
        }),
    ];
    (octet(6), cuint(1, 1), body, any::<bool>()).prop_map(|(transaction_id, group_no, body, crc_short)| CMsg {
        list_extra: 0, transaction_id, group_no, abort_on_error: CUint::w(0, 1), body_list_extra: 0, tag_width: 2, tag_extra: 0, body, crc_short, crc_extra: 0,
    })
}

pub fn cfile(tier_big: bool) -> impl Strategy<Value = CFile> {
    let n = if tier_big { 0..9usize } else { 0..5usize };
    let files = prop_oneof![
        60 => vec(cmsg(tier_big), n).prop_map(|msgs| CFile { msgs }),
        // many messages in one file (state carried from message to message)
        1 => vec(cmsg_small(), 5..40).prop_map(|msgs| CFile { msgs }),
        1 => vec(cmsg_small(), 250..300).prop_map(|msgs| CFile { msgs }),
    ];
    // in one file out of six the messages that ask for the shortened checksum field really get one
    (files, 0u8..6).prop_map(|(mut f, g)| {
        if g == 0 {
            grind_short_crc(&mut f);
        }
        f
    })
}

/// A typical meter transmission: open, get-list, close.
pub fn cfile_typical() -> impl Strategy<Value = CFile> {
    (cmsg(false), cmsg(false), cmsg(false), 0u8..6).prop_map(|(a, b, c, g)| {
        let mut f = CFile { msgs: vec![a, b, c] };
        if g == 0 {
            grind_short_crc(&mut f);
        }
        f
    })
}

/// A fixed three-message file that contains every construct of the supported subset at least
/// once: every value variant (boolean, octet string incl. a multi-byte TLF, signed / unsigned of
/// several widths, list-typed time), every status width class, standard and bare times, present
/// and absent optional fields, a two-byte list TLF. Real meter payloads lack several of these
/// (no boolean, no signature, no gateway time), so the exhaustive neighbourhoods use it as a base.
pub fn showcase_file() -> CFile {
    let std_time = |s: u64, w: u8| CTime::Std { list_extra: 0, tag_extra: 0, secs: CUint::w(s, w) };
    let oct = |d: &[u8]| COctet::plain(d);
    let entry = |i: u8, value: CValue, status: Option<CUint>, val_time: Option<CTime>, sig: Option<COctet>| CEntry {
        list_extra: 0,
        obj_name: oct(&[1, 0, i, 8, 0, 0xff]),
        status,
        val_time,
        unit: if i % 2 == 0 { Some(CUint::w(30, 1)) } else { None },
        scaler: if i % 3 == 0 { Some(CInt { value: -1, width: 1, extra: 0 }) } else { None },
        value,
        sig,
    };
    let mut entries = vec![
        entry(0, CValue::Bool(1), Some(CUint::w(0x82, 1)), None, None),
        entry(1, CValue::Bool(0), Some(CUint::w(0x0182, 2)), Some(std_time(0x0102, 2)), None),
        entry(2, CValue::Bytes(oct(b"ISK")), Some(CUint::w(0x010182, 3)), Some(CTime::Bare { secs: 0x01020304, extra: 0 }), None),
        entry(3, CValue::Bytes(oct(&[0x41; 20])), Some(CUint::w(0x0001_0182, 4)), None, Some(oct(&[9, 9, 9]))),
        entry(4, CValue::Int(CInt { value: -2, width: 1, extra: 0 }), Some(CUint::w(0x01_0000_0182, 5)), None, None),
        entry(5, CValue::Int(CInt { value: -300, width: 2, extra: 0 }), Some(CUint::w(0x0100_0000_0000_0182, 8)), None, None),
        entry(6, CValue::Int(CInt { value: -70000, width: 3, extra: 0 }), None, None, None),
        entry(7, CValue::Int(CInt { value: 0x1234567, width: 4, extra: 0 }), None, None, None),
        entry(8, CValue::Int(CInt { value: -0x1234567890, width: 5, extra: 0 }), None, None, None),
        entry(9, CValue::Int(CInt { value: i64::MIN + 5, width: 8, extra: 0 }), None, None, None),
        entry(10, CValue::Uint(CUint::w(0xfe, 1)), None, None, None),
        entry(11, CValue::Uint(CUint::w(0xfedc, 2)), None, None, None),
        entry(12, CValue::Uint(CUint::w(0x80dcba, 3)), None, None, None),
        entry(13, CValue::Uint(CUint::w(0xfedcba98, 4)), None, None, None),
        entry(14, CValue::Uint(CUint::w(0x80dcba9876, 5)), None, None, None),
        entry(15, CValue::Uint(CUint::w(u64::MAX - 1, 8)), None, None, None),
        entry(16, CValue::ListTime { list_extra: 0, tag_extra: 0, time: std_time(0x01020304, 4) }, None, None, None),
    ];
    entries[4].obj_name.extra = 1;
    let m = |body: CBody, tid: &[u8]| CMsg {
        list_extra: 0,
        transaction_id: oct(tid),
        group_no: CUint::w(0, 1),
        abort_on_error: CUint::w(0, 1),
        body_list_extra: 0,
        tag_width: 2,
        tag_extra: 0,
        body,
        crc_short: false,
        crc_extra: 0,
    };
    CFile {
        msgs: vec![
            m(
                CBody::Open { list_extra: 0, codepage: None, client_id: Some(oct(&[7, 7])), req_file_id: oct(&[1, 2, 3, 4, 5, 6]), server_id: oct(&[0x0a, 1, 0x49, 0x53, 0x4b, 0, 4, 3, 0xdf, 0x63]), ref_time: Some(std_time(0x0a0b0c, 3)), sml_version: Some(CUint::w(1, 1)) },
                &[1, 2, 3],
            ),
            m(
                CBody::GetList { list_extra: 0, client_id: None, server_id: oct(&[0x0a, 1, 0x49, 0x53, 0x4b, 0, 4, 3, 0xdf, 0x63]), list_name: Some(oct(&[1, 0, 0x62, 0x0a, 0xff, 0xff])), act_sensor_time: Some(std_time(0x07aff5e4, 4)), vals_extra: 0, entries, list_sig: Some(oct(&[0xaa, 0xbb])), act_gateway_time: Some(CTime::Bare { secs: 77, extra: 0 }) },
                &[1, 2, 4],
            ),
            m(CBody::Close { list_extra: 0, sig: Some(oct(&[5, 5, 5, 5])) }, &[1, 2, 5]),
        ],
    }
}

// ---------------------------------------------------------------------------------------
// classification helpers for evidence
// ---------------------------------------------------------------------------------------

pub fn classify_file(f: &CFile, out: &mut Vec<String>) -> bool {
    // returns non-trivial: a get-list message with >= 1 entry and at least one non-minimal
    // TLF, multi-byte TLF, shortened integer or workaround time
    let mut has_list_entry = false;
    let mut special = false;
    out.push(format!("msgs:{}", f.msgs.len().min(5)));
    for m in &f.msgs {
        if m.list_extra > 0 || m.transaction_id.extra > 0 || m.tag_extra > 0 || m.crc_extra > 0 || m.body_list_extra > 0 {
            special = true;
            out.push("enc:non-minimal-tlf".into());
        }
        if m.tag_width != 2 {
            out.push(format!("enc:body-tag-width-{}", m.tag_width));
        }
        if m.transaction_id.data.len() >= 15 {
            special = true;
            out.push("enc:multi-byte-tlf".into());
        }
        match &m.body {
            CBody::Open { ref_time, .. } => {
                out.push("body:open".into());
                if let Some(CTime::Bare { .. }) = ref_time {
                    special = true;
                    out.push("time:workaround".into());
                }
            }
            CBody::Close { .. } => out.push("body:close".into()),
            CBody::GetList { entries, act_sensor_time, act_gateway_time, .. } => {
                out.push("body:getlist".into());
                out.push(format!("entries:{}", match entries.len() {
                    0 => "0",
                    1..=15 => "1-15",
                    16..=255 => "16-255",
                    _ => ">=256",
                }));
                if entries.len() >= 16 {
                    special = true;
                }
                for t in [act_sensor_time, act_gateway_time].into_iter().flatten() {
                    if let CTime::Bare { .. } = t {
                        special = true;
                        out.push("time:workaround".into());
                    }
                }
                for e in entries {
                    has_list_entry = true;
                    if e.list_extra > 0 || e.obj_name.extra > 0 {
                        special = true;
                    }
                    match &e.value {
                        CValue::Bool(_) => out.push("value:bool".into()),
                        CValue::Bytes(o) => {
                            out.push("value:bytes".into());
                            if o.data.len() >= 15 || o.extra > 0 {
                                special = true;
                            }
                        }
                        CValue::Int(i) => {
                            out.push(format!("value:int-w{}", i.width));
                            if !matches!(i.width, 1 | 2 | 4 | 8) || i.extra > 0 {
                                special = true;
                            }
                        }
                        CValue::Uint(u) => {
                            out.push(format!("value:uint-w{}", u.width));
                            if !matches!(u.width, 1 | 2 | 4 | 8) || u.extra > 0 {
                                special = true;
                            }
                        }
                        CValue::ListTime { .. } => {
                            out.push("value:list-time".into());
                            special = true;
                        }
                    }
                    if let Some(s) = &e.status {
                        out.push(format!("status:w{}", s.width));
                    }
                    if let Some(CTime::Bare { .. }) = &e.val_time {
                        special = true;
                        out.push("time:workaround".into());
                    }
                }
            }
        }
    }
    out.sort();
    out.dedup();
    has_list_entry && special
}

#[cfg(test)]
mod tests {
    use super::*;
    use proptest::strategy::ValueTree;
    use proptest::test_runner::TestRunner;
    #[test]
    fn showcase_file_is_valid() {
        let f = showcase_file();
        let w = write(&f);
        assert_eq!(read_file(&w.bytes).expect("showcase must be valid"), f.abstract_());
    }

    #[test]
    fn generated_files_roundtrip_through_reference_reader() {
        std::thread::Builder::new()
            .stack_size(256 << 20)
            .spawn(|| {
                let mut runner = TestRunner::deterministic();
                let s = cfile(true);
                for _ in 0..300 {
                    let f = s.new_tree(&mut runner).unwrap().current();
                    let w = write(&f);
                    let r = read_file(&w.bytes).unwrap_or_else(|e| panic!("reference reader rejects writer output: {:?}\n{:?}", e, f));
                    assert_eq!(r, f.abstract_());
                }
            })
            .unwrap()
            .join()
            .unwrap();
    }
}
