//! G5b: grammar-level ("type confusion") mutations. A well-formed encoding is parsed into a
//! generic TLV tree, the tree is mutated (retype / resize a primitive, replace a node, add /
//! drop / duplicate / swap list children, wrap in a list) and written back with
//! self-consistent type-length fields; the message checksums are then recomputed. The result
//! is always a well-formed TLV structure with valid checksums, so only the grammar's own
//! arity / type / width / variant checks can reject it.

use crate::refmodel::sml::{list_tlf, prim_tlf, read_tlf, TY_BOOL, TY_INT, TY_LIST, TY_OCTET, TY_UINT};
use proptest::prelude::*;

#[derive(Debug, Clone, PartialEq)]
pub enum Node {
    Prim { ty: u8, data: Vec<u8>, extra: u8 },
    List { items: Vec<Node>, extra: u8 },
    /// the end-of-message marker 0x00 (sixth element of a message)
    End,
}

/// Parses a byte string consisting of top-level nodes (messages).
pub fn parse_top(bytes: &[u8]) -> Option<Vec<Node>> {
    let mut pos = 0;
    let mut out = Vec::new();
    while pos < bytes.len() {
        let n = parse_node(bytes, &mut pos, 0)?;
        out.push(n);
    }
    Some(out)
}

fn parse_node(b: &[u8], pos: &mut usize, depth: usize) -> Option<Node> {
    if depth > 12 {
        return None;
    }
    if b.get(*pos) == Some(&0) {
        *pos += 1;
        return Some(Node::End);
    }
    let t = read_tlf(&b[*pos..], *pos).ok()?;
    let minimal = if t.ty == TY_LIST { list_tlf(t.len, 0).len() } else { prim_tlf(t.ty, t.len as usize, 0).len() };
    let extra = t.nbytes.saturating_sub(minimal).min(3) as u8;
    *pos += t.nbytes;
    if t.ty == TY_LIST {
        if t.len > (b.len() - *pos) as u64 {
            return None;
        }
        let mut items = Vec::with_capacity(t.len as usize);
        for _ in 0..t.len {
            items.push(parse_node(b, pos, depth + 1)?);
        }
        Some(Node::List { items, extra })
    } else {
        if t.len > (b.len() - *pos) as u64 {
            return None;
        }
        let data = b[*pos..*pos + t.len as usize].to_vec();
        *pos += t.len as usize;
        Some(Node::Prim { ty: t.ty, data, extra })
    }
}

pub fn write_node(n: &Node, out: &mut Vec<u8>) {
    match n {
        Node::Prim { ty, data, extra } => {
            if *ty == TY_BOOL {
                // a boolean TLF cannot be extended (more-bit is reserved): single byte, length nibble = len + 1
                out.push((TY_BOOL << 4) | ((data.len() + 1) & 0x0f) as u8);
            } else {
                out.extend_from_slice(&prim_tlf(*ty, data.len(), *extra));
            }
            out.extend_from_slice(data);
        }
        Node::List { items, extra } => {
            out.extend_from_slice(&list_tlf(items.len() as u64, *extra));
            for i in items {
                write_node(i, out);
            }
        }
        Node::End => out.push(0),
    }
}

/// Recomputes the checksum of every top-level message at tree level: a message is a list whose
/// last element is the end marker and whose last-but-one element is an unsigned of 1..=2 bytes;
/// the checksum covers the list TLF and all elements before it. Independent of the grammar, so
/// it also works for structures the grammar rejects. Returns the number of messages patched.
pub fn fix_crcs_tree(nodes: &mut [Node]) -> usize {
    let mut n = 0;
    for node in nodes.iter_mut() {
        if let Node::List { items, extra } = node {
            let l = items.len();
            if l < 2 || items[l - 1] != Node::End {
                continue;
            }
            let mut covered = list_tlf(l as u64, *extra);
            for it in &items[..l - 2] {
                write_node(it, &mut covered);
            }
            if let Node::Prim { ty, data, extra: e } = &mut items[l - 2] {
                if *ty == TY_UINT && data.len() == 2 {
                    let _ = e;
                    let crc = crate::refmodel::transport::crc16_x25(&covered);
                    let want = vec![(crc & 0xff) as u8, (crc >> 8) as u8];
                    if *data != want {
                        *data = want;
                        n += 1;
                    }
                }
            }
        }
    }
    n
}

pub fn write_top(nodes: &[Node]) -> Vec<u8> {
    let mut out = Vec::new();
    for n in nodes {
        write_node(n, &mut out);
    }
    out
}

fn count(n: &Node) -> usize {
    match n {
        Node::Prim { .. } | Node::End => 1,
        Node::List { items, .. } => 1 + items.iter().map(count).sum::<usize>(),
    }
}

/// Visits the k-th node (preorder over the forest) mutably, together with its parent list and index.
fn with_kth<'a>(nodes: &'a mut Vec<Node>, mut k: usize, f: &mut dyn FnMut(&mut Vec<Node>, usize)) -> bool {
    for i in 0..nodes.len() {
        if k == 0 {
            f(nodes, i);
            return true;
        }
        k -= 1;
        let sub = count(&nodes[i]) - 1;
        if k < sub {
            if let Node::List { items, .. } = &mut nodes[i] {
                return with_kth(items, k, f);
            }
        }
        k -= sub;
    }
    false
}

#[derive(Debug, Clone, PartialEq)]
pub enum TMut {
    /// change the type of a primitive, keeping its data
    Retype(u16, u8),
    /// change the data length of a primitive (0..=9 bytes), filling with `fill`
    Resize(u16, u8, u8),
    /// replace a node: 0 = absent marker `01`, 1 = unsigned of w bytes, 2 = signed of w bytes,
    /// 3 = boolean, 4 = empty list, 5 = list of w absent markers, 6 = octet string of w bytes
    Replace(u16, u8, u8, u8),
    Drop(u16),
    Dup(u16),
    /// insert an absent marker / a small unsigned before the node
    Insert(u16, bool),
    SwapNext(u16),
    Wrap(u16),
    /// replace a list by its children (splice them into the parent)
    Unwrap(u16),
    /// set the first data byte of a primitive (tags, values)
    SetByte(u16, u8),
    /// extra (non-minimal) TLF bytes on a node
    Extra(u16, u8),
    /// a list keeps only its first k children (a structure of smaller arity whose contents are
    /// otherwise consistent - e.g. a response without its trailing optional fields)
    KeepFirst(u16, u8),
    /// k absent markers are appended to a list (a structure of larger arity)
    Append(u16, u8),
    /// the last child of a list is replaced by a copy of the list itself (a structure nested inside itself,
    /// e.g. a time choice whose value position holds another time choice)
    NestSelf(u16),
    /// an integer re-encoded with n more leading bytes that do not change its value (00, or ff for a negative
    /// signed one): fine where the field may be wider, a type error where its width is fixed (tags, unit,
    /// scaler, checksum, seconds)
    WidenLead(u16, u8),
}

pub fn tmut() -> impl Strategy<Value = TMut> {
    let ty = prop_oneof![Just(TY_OCTET), Just(TY_BOOL), Just(TY_INT), Just(TY_UINT)];
    prop_oneof![
        4 => (any::<u16>(), ty).prop_map(|(k, t)| TMut::Retype(k, t)),
        5 => (any::<u16>(), 0u8..10, any::<u8>()).prop_map(|(k, l, f)| TMut::Resize(k, l, f)),
        6 => (any::<u16>(), 0u8..7, 0u8..10, any::<u8>()).prop_map(|(k, a, w, f)| TMut::Replace(k, a, w, f)),
        3 => any::<u16>().prop_map(TMut::Drop),
        2 => any::<u16>().prop_map(TMut::Dup),
        3 => (any::<u16>(), any::<bool>()).prop_map(|(k, a)| TMut::Insert(k, a)),
        2 => any::<u16>().prop_map(TMut::SwapNext),
        1 => any::<u16>().prop_map(TMut::Wrap),
        1 => any::<u16>().prop_map(TMut::Unwrap),
        3 => (any::<u16>(), prop_oneof![Just(0u8), Just(1u8), Just(2u8), Just(7u8), any::<u8>()]).prop_map(|(k, b)| TMut::SetByte(k, b)),
        2 => (any::<u16>(), 1u8..4).prop_map(|(k, e)| TMut::Extra(k, e)),
        3 => (any::<u16>(), 0u8..9).prop_map(|(k, n)| TMut::KeepFirst(k, n)),
        2 => (any::<u16>(), 1u8..4).prop_map(|(k, n)| TMut::Append(k, n)),
        2 => any::<u16>().prop_map(TMut::NestSelf),
        3 => (any::<u16>(), 1u8..3).prop_map(|(k, n)| TMut::WidenLead(k, n)),
    ]
}

fn pick(x: u16, n: usize) -> usize {
    if n == 0 {
        0
    } else {
        ((x as usize) * n) >> 16
    }
}

pub fn total_nodes(nodes: &[Node]) -> usize {
    nodes.iter().map(count).sum()
}

pub fn apply(nodes: &mut Vec<Node>, m: &TMut) -> &'static str {
    let total: usize = total_nodes(nodes);
    if total == 0 {
        return "noop";
    }
    let x = match m {
        TMut::Retype(k, _) | TMut::Resize(k, _, _) | TMut::Replace(k, _, _, _) | TMut::Drop(k) | TMut::Dup(k) | TMut::Insert(k, _) | TMut::SwapNext(k) | TMut::Wrap(k) | TMut::Unwrap(k) | TMut::SetByte(k, _) | TMut::Extra(k, _) | TMut::KeepFirst(k, _) | TMut::Append(k, _) | TMut::NestSelf(k) | TMut::WidenLead(k, _) => *k,
    };
    apply_at(nodes, pick(x, total), m)
}

/// Applies `m` to the k-th node (preorder), ignoring the index stored in `m`.
pub fn apply_at(nodes: &mut Vec<Node>, k: usize, m: &TMut) -> &'static str {
    let label: &'static str = match m {
        TMut::Retype(..) => "retype",
        TMut::Resize(..) => "resize",
        TMut::Replace(..) => "replace",
        TMut::Drop(_) => "drop",
        TMut::Dup(_) => "dup",
        TMut::Insert(..) => "insert",
        TMut::SwapNext(_) => "swap",
        TMut::Wrap(_) => "wrap",
        TMut::Unwrap(_) => "unwrap",
        TMut::SetByte(..) => "set-byte",
        TMut::Extra(..) => "extra-tlf-bytes",
        TMut::KeepFirst(..) => "keep-first-children",
        TMut::Append(..) => "append-children",
        TMut::NestSelf(_) => "nest-in-itself",
        TMut::WidenLead(..) => "widen-integer",
    };
    let m = m.clone();
    with_kth(nodes, k, &mut |parent: &mut Vec<Node>, i: usize| match &m {
        TMut::Retype(_, t) => {
            if let Node::Prim { ty, .. } = &mut parent[i] {
                *ty = *t;
            }
        }
        TMut::Resize(_, l, fill) => {
            if let Node::Prim { data, .. } = &mut parent[i] {
                data.resize(*l as usize, *fill);
            }
        }
        TMut::Replace(_, a, w, fill) => {
            let w = *w as usize;
            parent[i] = match a {
                0 => Node::Prim { ty: TY_OCTET, data: vec![], extra: 0 },
                1 => Node::Prim { ty: TY_UINT, data: vec![*fill; w], extra: 0 },
                2 => Node::Prim { ty: TY_INT, data: vec![*fill; w], extra: 0 },
                3 => Node::Prim { ty: TY_BOOL, data: vec![*fill], extra: 0 },
                4 => Node::List { items: vec![], extra: 0 },
                5 => Node::List { items: vec![Node::Prim { ty: TY_OCTET, data: vec![], extra: 0 }; w], extra: 0 },
                _ => Node::Prim { ty: TY_OCTET, data: vec![*fill; w], extra: 0 },
            };
        }
        TMut::Drop(_) => {
            parent.remove(i);
        }
        TMut::Dup(_) => {
            let c = parent[i].clone();
            parent.insert(i, c);
        }
        TMut::Insert(_, absent) => {
            let n = if *absent { Node::Prim { ty: TY_OCTET, data: vec![], extra: 0 } } else { Node::Prim { ty: TY_UINT, data: vec![1], extra: 0 } };
            parent.insert(i, n);
        }
        TMut::SwapNext(_) => {
            if i + 1 < parent.len() {
                parent.swap(i, i + 1);
            }
        }
        TMut::Wrap(_) => {
            let c = parent[i].clone();
            parent[i] = Node::List { items: vec![c], extra: 0 };
        }
        TMut::Unwrap(_) => {
            if let Node::List { items, .. } = parent[i].clone() {
                parent.splice(i..=i, items);
            }
        }
        TMut::SetByte(_, b) => {
            if let Node::Prim { data, .. } = &mut parent[i] {
                if let Some(f) = data.first_mut() {
                    *f = *b;
                }
            }
        }
        TMut::Extra(_, e) => match &mut parent[i] {
            Node::Prim { extra, .. } | Node::List { extra, .. } => *extra = *e,
            Node::End => {}
        },
        TMut::KeepFirst(_, n) => {
            if let Node::List { items, .. } = &mut parent[i] {
                items.truncate(*n as usize);
            }
        }
        TMut::WidenLead(_, n) => {
            if let Node::Prim { ty, data, .. } = &mut parent[i] {
                if (*ty == TY_UINT || *ty == TY_INT) && !data.is_empty() {
                    let lead = if *ty == TY_INT && data[0] & 0x80 != 0 { 0xff } else { 0x00 };
                    for _ in 0..*n {
                        data.insert(0, lead);
                    }
                }
            }
        }
        TMut::NestSelf(_) => {
            if let Node::List { items, .. } = &mut parent[i] {
                if !items.is_empty() && items.len() <= 8 {
                    let copy = Node::List { items: items.clone(), extra: 0 };
                    let l = items.len();
                    items[l - 1] = copy;
                }
            }
        }
        TMut::Append(_, n) => {
            if let Node::List { items, .. } = &mut parent[i] {
                for _ in 0..*n {
                    items.push(Node::Prim { ty: TY_OCTET, data: vec![], extra: 0 });
                }
            }
        }
    });
    label
}

/// The finite catalogue of single mutations used for the exhaustive neighbourhood: every
/// retype, every resize 0..=9, every replacement shape x width, drop / dup / insert / swap /
/// wrap / unwrap, tag bytes 0,1,2,7 and 1 extra TLF byte.
pub fn catalogue() -> Vec<TMut> {
    let mut v = Vec::new();
    for t in [TY_OCTET, TY_BOOL, TY_INT, TY_UINT] {
        v.push(TMut::Retype(0, t));
    }
    for l in 0..=9u8 {
        v.push(TMut::Resize(0, l, 0x01));
    }
    v.push(TMut::Replace(0, 0, 0, 0));
    for a in [1u8, 2, 6] {
        for w in 0..=9u8 {
            v.push(TMut::Replace(0, a, w, 0x01));
        }
    }
    v.push(TMut::Replace(0, 3, 0, 1));
    v.push(TMut::Replace(0, 4, 0, 0));
    for w in 1..=8u8 {
        v.push(TMut::Replace(0, 5, w, 0));
    }
    v.push(TMut::Drop(0));
    v.push(TMut::Dup(0));
    v.push(TMut::Insert(0, true));
    v.push(TMut::Insert(0, false));
    v.push(TMut::SwapNext(0));
    v.push(TMut::Wrap(0));
    v.push(TMut::Unwrap(0));
    for b in [0u8, 1, 2, 7, 0xff] {
        v.push(TMut::SetByte(0, b));
    }
    v.push(TMut::Extra(0, 1));
    for n in 0..=8u8 {
        v.push(TMut::KeepFirst(0, n));
    }
    for n in 1..=2u8 {
        v.push(TMut::Append(0, n));
    }
    v.push(TMut::NestSelf(0));
    for n in 1..=2u8 {
        v.push(TMut::WidenLead(0, n));
    }
    v
}

/// Base inputs for the exhaustive single-mutation neighbourhood: real meter payloads (which
/// contain standard and bare times, signed / unsigned values of several widths, octet strings).
pub fn neighbourhood_bases() -> Vec<Vec<u8>> {
    let all = crate::gen::pinput::real_payloads();
    let mut v = vec![crate::refmodel::sml::write(&crate::gen::smlfile::showcase_file()).bytes];
    if all.is_empty() {
        return v;
    }
    // spread over the corpus: different vendors use different encodings
    for i in 0..6 {
        let p = &all[(i * all.len()) / 6];
        if p.len() <= 420 && parse_top(p).is_some() {
            v.push(p.clone());
        }
    }
    v
}

/// Enumerates the complete single-mutation neighbourhood of the base inputs:
/// (base, node index, catalogue entry). `f` gets (bytes, label) and returns false to stop.
pub fn neighbourhood(shard: usize, nshards: usize, f: &mut dyn FnMut(Vec<u8>, String) -> bool) {
    let cat = catalogue();
    let mut g = 0usize;
    for (bi, base) in neighbourhood_bases().iter().enumerate() {
        let nodes = match parse_top(base) {
            Some(n) => n,
            None => continue,
        };
        let total = total_nodes(&nodes);
        for k in 0..total {
            for (ci, m) in cat.iter().enumerate() {
                if g % nshards == shard {
                    let mut n2 = nodes.clone();
                    let label = apply_at(&mut n2, k, m);
                    fix_crcs_tree(&mut n2);
                    let out = write_top(&n2);
                    if !f(out, format!("treedump[{}] base={} node={} cat={} crc-fixed", label, bi, k, ci)) {
                        return;
                    }
                }
                g += 1;
            }
        }
    }
}

/// The complete single-byte neighbourhood of every type-length field: for each TLF byte of each
/// base input (as located by the reference reader) every one of the 255 other values, the rest
/// of the input unchanged, checksums recomputed with the grammar-independent scan. Covers every
/// change of type bits, more-bit, length nibble and continuation byte of a single TLF.
pub fn tlf_byte_neighbourhood(shard: usize, nshards: usize, f: &mut dyn FnMut(Vec<u8>, String) -> bool) {
    let mut g = 0usize;
    for (bi, base) in neighbourhood_bases().iter().enumerate() {
        let spans = crate::refmodel::sml::read_events(base, true).tlfs;
        for t in &spans {
            for off in 0..t.n {
                let pos = t.pos + off;
                for v in 0..=255u8 {
                    if v == base[pos] {
                        continue;
                    }
                    if g % nshards == shard {
                        let mut out = base.clone();
                        out[pos] = v;
                        crate::refmodel::sml::fix_crcs_scan(&mut out);
                        if !f(out, format!("mutated[tlf-byte] base={} pos={} value={:02x} crc-fixed", bi, pos, v)) {
                            return;
                        }
                    }
                    g += 1;
                }
            }
        }
    }
}

/// Applies tree mutations to a well-formed encoding and recomputes the checksums.
/// Returns None when the input is not a well-formed TLV forest.
pub fn mutate_tree(bytes: &[u8], muts: &[TMut]) -> Option<(Vec<u8>, Vec<&'static str>, usize)> {
    let mut nodes = parse_top(bytes)?;
    let mut labels = Vec::new();
    for m in muts {
        labels.push(apply(&mut nodes, m));
    }
    let patched = fix_crcs_tree(&mut nodes);
    let out = write_top(&nodes);
    Some((out, labels, patched))
}

#[cfg(test)]
mod tests {
    use super::*;
    #[test]
    fn parse_write_roundtrip_on_doc_example() {
        let bytes = [0x76, 0x5, 0xdd, 0x43, 0x44, 0x0, 0x62, 0x0, 0x62, 0x0, 0x72, 0x63, 0x2, 0x1, 0x71, 0x1, 0x63, 0xfd, 0x56, 0x0];
        let n = parse_top(&bytes).unwrap();
        assert_eq!(write_top(&n), bytes);
        let (m, _, _) = mutate_tree(&bytes, &[TMut::Retype(0x2000, TY_INT)]).unwrap();
        assert_ne!(m, bytes.to_vec());
    }
}

#[cfg(test)]
mod tests2 {
    use super::*;
    #[test]
    fn dumps_parse_as_trees() {
        let all = crate::gen::pinput::real_payloads();
        assert!(!all.is_empty());
        let mut bad = 0;
        for (i, p) in all.iter().enumerate() {
            match parse_top(p) {
                Some(n) => assert_eq!(&write_top(&n), p, "payload {i} does not round-trip"),
                None => {
                    bad += 1;
                    if bad < 3 {
                        eprintln!("payload {i} unparsed: {}", crate::util::hex_short(p, 60));
                    }
                }
            }
        }
        assert_eq!(bad, 0);
    }
}
