import sys
pid, wt = sys.argv[1], sys.argv[2]
prop = open('/tmp/prop_%s.txt' % pid).read()
print(f"""You are helping to evaluate a verification tool by producing a *seeded defect* (a mutant) for a Rust library.

Work ONLY inside the git worktree {wt} - a checkout of `sml-rs`, a no_std Rust library implementing the SML (Smart Message Language) transport v1 encoder/decoder and a TLF-based parser used by German power meters. Do NOT read or write anything under /verif or /repo, and do not look for other verification material on this machine: your work must be independent. There is no network; always pass `--offline` to cargo. Start by reading README.md and the sources under src/.

The library is supposed to satisfy this property:

{prop}
Your task: make ONE small, realistic change to the library sources (under src/ only; do not touch tests, snapshots or examples) that BREAKS this property, such that
 (a) the crate still compiles without errors,
 (b) the existing test-suite still passes completely: `cargo test --workspace --no-fail-fast --offline` (unit tests, integration test with snapshots, doctests),
 (c) the breakage needs something SPECIFIC to manifest - a particular input shape or boundary value, a multi-step sequence of calls, a fault at a particular point, an unusual configuration (buffer size, front-end), or two cooperating sites that each look fine alone. It must NOT be something ordinary use would expose at once (e.g. do not break every frame or every parse). Prefer the kind of mistake a maintainer could plausibly make in a refactoring or "optimisation".

Also provide a demonstration: a new integration test file `tests/demo_mutant.rs` (using only the crate's public API; dev-dependencies hex-literal and hex are available; if it uses the optional `nb` / `embedded-hal-02` front-ends, start the file with `#![cfg(all(feature = "nb", feature = "embedded-hal-02"))]` so that it still compiles without them) that FAILS with your change and PASSES on the original code. Verify both yourself: run `cargo test --offline --features nb,embedded-hal-02 --test demo_mutant` with your change (must fail) and with the change temporarily removed (do NOT use `git stash` - it is shared between worktrees; instead: `git diff -- src > /tmp/<your-worktree-name>.patch && git apply -R /tmp/<your-worktree-name>.patch`, run the demo, then `git apply /tmp/<your-worktree-name>.patch`; must pass).

Deliverables, all left UNCOMMITTED in the worktree:
 1. the modified file(s) under src/,
 2. tests/demo_mutant.rs,
 3. a file MUTANT.md in the worktree root stating: the property id, what you changed (file/lines), why it breaks the property, exactly what is needed for it to manifest, and the commands you ran with their outcome (full test-suite passes with the change; demo fails with the change; demo passes without it).

Keep the change minimal (a few lines). Do not add cfg flags or features. When you are done, reply with a short summary (what you changed and what triggers it).""")
