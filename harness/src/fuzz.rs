//! Entry points for the libFuzzer targets (thorough tier). Each decodes the fuzzer's bytes
//! into the property's `Input` (a few directive bytes + raw stream / parser input, with an
//! in-target checksum fix-up layer) and evaluates the same oracle as the generated checks.
//! On a violation the case is written as a normal replay file and the process aborts, so
//! the reproducible unit is the replay file, not the campaign.

use crate::engine::caps::{cap_at_least, CAPS};
use crate::engine::{guard, Fail, Obs, Prop};
use crate::props::*;
use crate::refmodel::transport::{crc16_x25, START};
use std::io::Write;

fn replay_dir() -> String {
    std::env::var("VERIF_REPLAY_DIR").unwrap_or_else(|_| "/verif/replays".into())
}

fn known() -> &'static Vec<(String, Vec<(String, String)>)> {
    static K: std::sync::OnceLock<Vec<(String, Vec<(String, String)>)>> = std::sync::OnceLock::new();
    K.get_or_init(|| {
        let path = std::env::var("VERIF_KNOWN").unwrap_or_else(|_| "/verif/known_findings.txt".into());
        crate::props::ALL.iter().map(|id| (id.to_string(), crate::engine::load_known(&path, id))).collect()
    })
}

/// Evaluates the oracle on one input; `Some(fail)` for a violation that is not a listed known finding.
fn evaluate<P: Prop>(input: &P::Input) -> Option<Fail> {
    guard::install_panic_hook();
    let mut obs = Obs::default();
    let verdict: Result<(), Fail> = match guard::catch(|| P::eval(input, &mut obs)) {
        Ok(v) => v,
        Err(p) if p.in_harness() => {
            eprintln!("FUZZ-HARNESS-BUG property={} {}", P::ID, p.describe());
            std::process::abort();
        }
        Err(p) => Err(Fail::new(format!("panic@{}:{}", p.file.rsplit('/').next().unwrap_or(""), p.line), format!("library code panicked: {}", p.describe()))),
    };
    match verdict {
        Ok(()) => None,
        Err(f) => {
            if known().iter().any(|(id, sigs)| id == P::ID && sigs.iter().any(|(s, _)| *s == f.sig)) {
                None
            } else {
                Some(f)
            }
        }
    }
}

/// Writes the replay file of a violating input, prints the FUZZ-VIOLATION line and aborts (libFuzzer
/// then saves its own artifact too; the reproducible unit is the replay file).
fn report<P: Prop>(input: &P::Input, f: &Fail, note: &str) -> ! {
    let body = P::to_kv(input).to_text();
    let h = crate::util::fnv64(body.as_bytes());
    let dir = replay_dir();
    let _ = std::fs::create_dir_all(&dir);
    let path = format!("{}/{}-fuzz-{:016x}.case", dir, P::ID, h);
    let mut text = format!("# property={} found by the libFuzzer target{}\n# signature={}\n", P::ID, note, f.sig);
    for l in f.msg.lines() {
        text.push_str(&format!("# {}\n", l));
    }
    text.push_str(&body);
    let _ = std::fs::write(&path, text);
    let _ = writeln!(std::io::stdout(), "FUZZ-VIOLATION property={} replay={}", P::ID, path);
    let _ = std::io::stdout().flush();
    std::process::abort();
}

fn judge<P: Prop>(input: P::Input) {
    if let Some(f) = evaluate::<P>(&input) {
        report::<P>(&input, &f, "");
    }
}

/// Rewrites the two CRC bytes after `1b1b1b1b 1a pp` occurrences selected by `mask` (bit k%8
/// for the k-th occurrence) with the CRC computed from the most recent start sequence
/// (or the one before it when bit k%8 of `mask2` is set).
pub fn fix_transport_crcs(s: &mut [u8], mask: u8, mask2: u8) {
    let mut starts: Vec<usize> = Vec::new();
    let mut k = 0usize;
    let mut i = 0usize;
    while i + 8 <= s.len() {
        if s[i..i + 8] == START {
            starts.push(i);
        }
        if s[i..i + 5] == [0x1b, 0x1b, 0x1b, 0x1b, 0x1a] {
            if mask >> (k % 8) & 1 == 1 && !starts.is_empty() {
                let mut idx = starts.len() - 1;
                if mask2 >> (k % 8) & 1 == 1 && idx > 0 {
                    idx -= 1;
                }
                let st = starts[idx];
                if st + 8 <= i {
                    let crc = crc16_x25(&s[st..i + 6]);
                    s[i + 6] = (crc & 0xff) as u8;
                    s[i + 7] = (crc >> 8) as u8;
                }
            }
            k += 1;
        }
        i += 1;
    }
}

fn small_cap(sel: u8) -> usize {
    CAPS[(sel as usize) % 36]
}

pub fn c01_input(data: &[u8]) -> Option<<c01::C01 as Prop>::Input> {
    let payload = data.to_vec();
    let cap = cap_at_least(payload.len()).unwrap_or(140_000);
    Some(c01::Input { payload, cap, extra: 1 })
}

pub fn c01(data: &[u8]) {
    if let Some(i) = c01_input(data) {
        judge::<c01::C01>(i);
    }
}

pub fn c07_input(data: &[u8]) -> Option<<c07::C07 as Prop>::Input> {
    if data.is_empty() {
        return None;
    }
    let payload = data[1..].to_vec();
    let l = crate::refmodel::transport::ref_frame_len(&payload);
    let near: Vec<usize> = CAPS.iter().copied().filter(|n| (*n as i64 - l as i64).abs() <= 5).collect();
    let cap = if !near.is_empty() { Some(near[data[0] as usize % near.len()]) } else { Some(small_cap(data[0])) };
    Some(c07::Input { payload, cap, extra: 2 })
}

pub fn c07(data: &[u8]) {
    if let Some(i) = c07_input(data) {
        judge::<c07::C07>(i);
    }
}

pub fn c02_input(data: &[u8]) -> Option<<c02::C02 as Prop>::Input> {
    if data.len() < 3 {
        return None;
    }
    let mut stream = data[3..].to_vec();
    fix_transport_crcs(&mut stream, data[0], data[1]);
    Some(c02::Input { stream, cap: small_cap(data[2]) })
}

pub fn c02(data: &[u8]) {
    if let Some(i) = c02_input(data) {
        judge::<c02::C02>(i);
    }
}

fn parser_bytes(data: &[u8]) -> Option<(u8, Vec<u8>)> {
    if data.is_empty() {
        return None;
    }
    let mut b = data[1..].to_vec();
    if data[0] & 1 == 1 {
        crate::refmodel::sml::fix_crcs(&mut b);
        if data[0] & 2 == 2 {
            crate::refmodel::sml::fix_crcs_scan(&mut b);
        }
    }
    Some((data[0], b))
}

pub fn c04_input(data: &[u8]) -> Option<<c04::C04 as Prop>::Input> {
    let (d, bytes) = parser_bytes(data)?;
    Some(crate::gen::pinput::PInput { bytes, how: format!("fuzz directive={:02x}", d) })
}

pub fn c04(data: &[u8]) {
    if let Some(i) = c04_input(data) {
        judge::<c04::C04>(i);
    }
}

pub fn c06_input(data: &[u8]) -> Option<<c06::C06 as Prop>::Input> {
    let (d, bytes) = parser_bytes(data)?;
    Some(crate::gen::pinput::PInput { bytes, how: format!("fuzz directive={:02x}", d) })
}

pub fn c06(data: &[u8]) {
    if let Some(i) = c06_input(data) {
        judge::<c06::C06>(i);
    }
}

pub fn c09_input(data: &[u8]) -> Option<<c09::C09 as Prop>::Input> {
    let (d, bytes) = parser_bytes(data)?;
    Some(crate::gen::pinput::PInput { bytes, how: format!("fuzz directive={:02x}", d) })
}

pub fn c09(data: &[u8]) {
    if let Some(i) = c09_input(data) {
        judge::<c09::C09>(i);
    }
}

pub fn c13_input(data: &[u8]) -> Option<<c13::C13 as Prop>::Input> {
    let (d, bytes) = parser_bytes(data)?;
    Some(c13::Input { p: crate::gen::pinput::PInput { bytes, how: format!("fuzz directive={:02x}", d) }, k: 1 + (d >> 4) as usize })
}

pub fn c13(data: &[u8]) {
    if let Some(i) = c13_input(data) {
        judge::<c13::C13>(i);
    }
}

pub fn c05_input(data: &[u8]) -> Option<<c05::C05 as Prop>::Input> {
    if data.len() < 3 {
        return None;
    }
    let cap = if data[0] & 1 == 1 { Some(small_cap(data[0] >> 1)) } else { None };
    let mut body = data[3..].to_vec();
    fix_transport_crcs(&mut body, data[1], 0);
    // 0xfe = finalize(), 0xff = reset(), 0xfd xx = literal byte xx
    let mut ops = Vec::new();
    let mut cur = Vec::new();
    let mut i = 0;
    while i < body.len() {
        match body[i] {
            0xfe | 0xff => {
                if !cur.is_empty() {
                    ops.push(c05::Op::Push(std::mem::take(&mut cur)));
                }
                ops.push(if body[i] == 0xfe { c05::Op::Finalize } else { c05::Op::Reset });
            }
            0xfd if i + 1 < body.len() => {
                i += 1;
                cur.push(body[i]);
            }
            b => cur.push(b),
        }
        i += 1;
    }
    if !cur.is_empty() {
        ops.push(c05::Op::Push(cur));
    }
    let m: Vec<u8> = data[3..].iter().take((data[2] % 24) as usize).copied().collect();
    Some(c05::Input { ops, cap, m, enc_cap: small_cap(data[2]), alloc_fail: None })
}

pub fn c05(data: &[u8]) {
    if let Some(i) = c05_input(data) {
        judge::<c05::C05>(i);
    }
}

pub fn c14_input(data: &[u8]) -> Option<<c14::C14 as Prop>::Input> {
    if data.len() < 4 {
        return None;
    }
    let mut rest = data[4..].to_vec();
    fix_transport_crcs(&mut rest, data[2], data[3]);
    let k = (data[1] as usize * (rest.len() + 1)) >> 8;
    let cap = if data[0] & 4 != 0 { Some(small_cap(data[0] >> 3)) } else { None };
    Some(c14::Input { s1: rest[..k].to_vec(), action: data[0] % 3, s2: rest[k..].to_vec(), cap })
}

pub fn c14(data: &[u8]) {
    if let Some(i) = c14_input(data) {
        judge::<c14::C14>(i);
    }
}

pub fn c15_input(data: &[u8]) -> Option<<c15::C15 as Prop>::Input> {
    if data.len() < 2 {
        return None;
    }
    let mut stream = data[2..].to_vec();
    fix_transport_crcs(&mut stream, data[0], data[1]);
    let cap = cap_at_least(stream.len()).unwrap_or(140_000);
    Some(c15::Input { stream, cap, extra: 1 })
}

pub fn c15(data: &[u8]) {
    if let Some(i) = c15_input(data) {
        judge::<c15::C15>(i);
    }
}

pub fn c17_input(data: &[u8]) -> Option<<c17::C17 as Prop>::Input> {
    if data.len() < 5 {
        return None;
    }
    let mut stream = data[5..].to_vec();
    fix_transport_crcs(&mut stream, data[3], data[4]);
    let pos = (data[1] as usize * (stream.len() + 1)) >> 8;
    let step = match data[2] % 4 {
        0 => None,
        1 => Some(crate::drive::Step::WouldBlock),
        2 => Some(crate::drive::Step::Interrupted),
        _ => Some(crate::drive::Step::Other(data[2] >> 2)),
    };
    let faults = step.map(|s| vec![(pos, s)]).unwrap_or_default();
    Some(c17::Input { stream, cap: small_cap(data[0] >> 2), use_reset: data[0] & 1 == 1, faults, poll_next: data[0] & 2 == 2 })
}

pub fn c17(data: &[u8]) {
    if let Some(i) = c17_input(data) {
        judge::<c17::C17>(i);
    }
}

pub fn c16_input(data: &[u8]) -> Option<<c16::C16 as Prop>::Input> {
    if data.len() < 2 {
        return None;
    }
    let n = small_cap(data[0]);
    let split = (data[1] as usize * (data.len() - 1)) >> 8;
    let body = &data[2..];
    let split = split.min(body.len());
    let m = body[..split].to_vec();
    let mut m2 = body[split..].to_vec();
    m2.truncate(n);
    Some(c16::Input { cap: n, m, m2 })
}

pub fn c16(data: &[u8]) {
    if let Some(i) = c16_input(data) {
        judge::<c16::C16>(i);
    }
}

pub fn c12_input(data: &[u8]) -> Option<<c12::C12 as Prop>::Input> {
    if data.len() < 3 {
        return None;
    }
    let pos = data[0] % 8;
    let flen = 1 + (data[1] as usize % 12).min(data.len() - 3);
    let field = data[2..2 + flen.min(data.len() - 2)].to_vec();
    if field.is_empty() {
        return None;
    }
    let rest = data[2 + field.len()..].to_vec();
    Some(c12::Input { pos, field, data: rest, fix: data[0] & 0x80 == 0 })
}

pub fn c12(data: &[u8]) {
    if let Some(i) = c12_input(data) {
        judge::<c12::C12>(i);
    }
}

// ---------------------------------------------------------------------------------------
// generator-driven target: the fuzzer's bytes are the random source of the property's own
// proptest strategy (proptest's `PassThrough` RNG), so libFuzzer's coverage and compare
// feedback steers the *structured* generator of every property (thorough tier, target `t_gen`)
// ---------------------------------------------------------------------------------------

use crate::engine::Tier;
use proptest::strategy::{BoxedStrategy, Strategy, ValueTree};
use proptest::test_runner::{Config, RngAlgorithm, TestRng, TestRunner};

fn tree_from_bytes<P: Prop>(data: &[u8]) -> Option<Box<dyn ValueTree<Value = P::Case>>>
where
    P::Case: 'static,
{
    use std::any::Any;
    use std::cell::RefCell;
    use std::collections::HashMap;
    thread_local! {
        static CACHE: RefCell<HashMap<&'static str, Box<dyn Any>>> = RefCell::new(HashMap::new());
    }
    CACHE.with(|c| {
        let mut c = c.borrow_mut();
        let s = c.entry(P::ID).or_insert_with(|| Box::new(P::strategy(Tier::Quick)) as Box<dyn Any>);
        let s = s.downcast_ref::<BoxedStrategy<P::Case>>().expect("strategy type");
        // The random source is the fuzzer's bytes followed by 4 KiB of a PRNG seeded from them; the
        // (patched, see vendor/proptest) pass-through RNG starts over when the source is used up, so
        // generation always terminates and stays a pure function of the input.
        let mut src = Vec::with_capacity(data.len() + (4 << 10));
        src.extend_from_slice(data);
        let mut x = crate::util::fnv64(data) | 1;
        for _ in 0..(4 << 10) / 8 {
            x = crate::gen::payload::xorshift(x);
            src.extend_from_slice(&x.to_le_bytes());
        }
        let rng = TestRng::from_seed(RngAlgorithm::PassThrough, &src);
        let mut runner = TestRunner::new_with_rng(Config { failure_persistence: None, max_local_rejects: 32, ..Config::default() }, rng);
        // a filter that keeps rejecting is not a case
        s.new_tree(&mut runner).ok()
    })
}

fn gen_input<P: Prop>(data: &[u8]) -> Option<P::Input>
where
    P::Case: 'static,
{
    tree_from_bytes::<P>(data).map(|t| P::lower(&t.current()))
}

/// Evaluates the case the bytes decode to; a violation is shrunk structurally with proptest's own
/// simplify / complicate protocol (same signature required, at most 4000 evaluations) before the
/// replay file is written.
fn gen_judge<P: Prop>(data: &[u8])
where
    P::Case: 'static,
{
    let mut tree = match tree_from_bytes::<P>(data) {
        Some(t) => t,
        None => return,
    };
    let input = P::lower(&tree.current());
    let first = match evaluate::<P>(&input) {
        None => return,
        Some(f) => f,
    };
    let mut best = (input, first);
    let mut evals = 0usize;
    if tree.simplify() {
        loop {
            evals += 1;
            if evals > 4000 {
                break;
            }
            let cand = P::lower(&tree.current());
            match evaluate::<P>(&cand) {
                Some(f) if f.sig == best.1.sig => {
                    best = (cand, f);
                    if !tree.simplify() {
                        break;
                    }
                }
                _ => {
                    if !tree.complicate() {
                        break;
                    }
                }
            }
        }
    }
    report::<P>(&best.0, &best.1, &format!(" t_gen (shrunk in {} evaluations)", evals));
}

fn gen_replay<P: Prop>(data: &[u8]) -> Option<String>
where
    P::Case: 'static,
{
    gen_input::<P>(data).map(|i| P::to_kv(&i).to_text())
}

macro_rules! dispatch_prop {
    ($id:expr, $f:ident, $data:expr, $none:expr) => {
        match $id {
            "C01" => $f::<c01::C01>($data),
            "C02" => $f::<c02::C02>($data),
            "C03" => $f::<c03::C03>($data),
            "C04" => $f::<c04::C04>($data),
            "C05" => $f::<c05::C05>($data),
            "C06" => $f::<c06::C06>($data),
            "C07" => $f::<c07::C07>($data),
            "C08" => $f::<c08::C08>($data),
            "C09" => $f::<c09::C09>($data),
            "C10" => $f::<c10::C10>($data),
            "C11" => $f::<c11::C11>($data),
            "C12" => $f::<c12::C12>($data),
            "C13" => $f::<c13::C13>($data),
            "C14" => $f::<c14::C14>($data),
            "C15" => $f::<c15::C15>($data),
            "C16" => $f::<c16::C16>($data),
            "C17" => $f::<c17::C17>($data),
            "C18" => $f::<c18::C18>($data),
            _ => $none,
        }
    };
}

/// Entry point of the `t_gen` target; the property is selected by the environment variable VERIF_FUZZ_PROP.
pub fn gen_entry(data: &[u8]) {
    static PROP: std::sync::OnceLock<String> = std::sync::OnceLock::new();
    let id = PROP.get_or_init(|| std::env::var("VERIF_FUZZ_PROP").expect("VERIF_FUZZ_PROP names the property"));
    dispatch_prop!(id.as_str(), gen_judge, data, panic!("unknown property {}", id))
}

/// Replay text of the case a `t_gen` input decodes to.
pub fn to_replay_gen(id: &str, data: &[u8]) -> Option<String> {
    dispatch_prop!(id, gen_replay, data, None)
}

/// Decodes a raw libFuzzer input (e.g. a crash / oom / timeout artifact) into the replay text of
/// the property's case, without evaluating it.
pub fn to_replay(id: &str, data: &[u8]) -> Option<String> {
    match id {
        "C01" => c01_input(data).map(|i| <c01::C01 as Prop>::to_kv(&i).to_text()),
        "C07" => c07_input(data).map(|i| <c07::C07 as Prop>::to_kv(&i).to_text()),
        "C02" => c02_input(data).map(|i| <c02::C02 as Prop>::to_kv(&i).to_text()),
        "C04" => c04_input(data).map(|i| <c04::C04 as Prop>::to_kv(&i).to_text()),
        "C06" => c06_input(data).map(|i| <c06::C06 as Prop>::to_kv(&i).to_text()),
        "C09" => c09_input(data).map(|i| <c09::C09 as Prop>::to_kv(&i).to_text()),
        "C13" => c13_input(data).map(|i| <c13::C13 as Prop>::to_kv(&i).to_text()),
        "C05" => c05_input(data).map(|i| <c05::C05 as Prop>::to_kv(&i).to_text()),
        "C14" => c14_input(data).map(|i| <c14::C14 as Prop>::to_kv(&i).to_text()),
        "C15" => c15_input(data).map(|i| <c15::C15 as Prop>::to_kv(&i).to_text()),
        "C17" => c17_input(data).map(|i| <c17::C17 as Prop>::to_kv(&i).to_text()),
        "C16" => c16_input(data).map(|i| <c16::C16 as Prop>::to_kv(&i).to_text()),
        "C12" => c12_input(data).map(|i| <c12::C12 as Prop>::to_kv(&i).to_text()),
        _ => None,
    }
}

#[cfg(test)]
mod tests {
    use super::*;

    fn gen_ok<P: Prop>(data: &[u8]) -> Option<String>
    where
        P::Case: 'static,
    {
        Some(format!("{}", gen_input::<P>(data).is_some()))
    }

    /// The generator-driven target must turn any byte string into a case (or drop it) quickly,
    /// for every property - in particular the empty string and strings far shorter than the case needs.
    #[test]
    fn generator_target_decodes_short_inputs_for_every_property() {
        std::thread::Builder::new()
            .stack_size(256 << 20)
            .spawn(|| {
                let mut inputs: Vec<Vec<u8>> = vec![vec![], vec![0xf5, 0x05, 0xdf, 0x32, 0xbb, 0xc5, 0x3a, 0x64], vec![0xff; 64], vec![0; 64]];
                let mut x = 0x1234_5678_9abc_def1u64;
                for n in [16usize, 256, 4096] {
                    let mut v = Vec::new();
                    while v.len() < n {
                        x = crate::gen::payload::xorshift(x);
                        v.extend_from_slice(&x.to_le_bytes());
                    }
                    inputs.push(v);
                }
                for id in crate::props::ALL {
                    for data in &inputs {
                        let t0 = std::time::Instant::now();
                        let r: Option<String> = dispatch_prop!(*id, gen_ok, data, None);
                        assert!(r.is_some());
                        assert!(t0.elapsed().as_secs() < 20, "{} took too long on a {}-byte input", id, data.len());
                    }
                }
            })
            .unwrap()
            .join()
            .unwrap();
    }
}
