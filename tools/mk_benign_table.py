#!/usr/bin/env python3
"""Rebuilds the table of behaviour-changing, property-preserving changes (benign/) in DESIGN.md from the raw
result file benign/RESULTS-raw.txt (lines `name SILENT|ALARM:.. C01=missed ...`; later lines win per check) and
records the result in benign/<name>/meta.json.   tools/mk_benign_table.py"""
import json, os, re
VERIF = os.path.dirname(os.path.dirname(os.path.abspath(__file__)))
res = {}
for line in open(os.path.join(VERIF, "benign", "RESULTS-raw.txt")):
    if line.startswith(" ") or not line.strip():
        continue
    parts = line.split()
    r = dict(p.split("=") for p in parts[2:] if "=" in p)
    res.setdefault(parts[0], {}).update(r)
SHORT = {}
p = os.path.join(VERIF, "benign", "SUMMARY.json")
if os.path.exists(p):
    SHORT = json.load(open(p))
rows = ["| Change | What differs for a caller | Checks run (quick tier) | Result |", "|---|---|---|---|"]
n = silent = 0
for name in sorted(res):
    r = res[name]
    d = os.path.join(VERIF, "benign", name)
    if os.path.isdir(d) and os.path.exists(os.path.join(d, "meta.json")):
        meta = json.load(open(os.path.join(d, "meta.json")))
        meta["checks"] = {k: ("silent" if v == "missed" else v) for k, v in r.items()}
        json.dump(meta, open(os.path.join(d, "meta.json"), "w"), indent=1)
    alarms = sorted(k for k, v in r.items() if v != "missed")
    n += 1
    silent += not alarms
    rows.append("| `%s` | %s | %s | %s |" % (name, SHORT.get(name, "see BENIGN.md"), ", ".join(sorted(r)), "all silent" if not alarms else "**" + ", ".join("%s %s" % (k, r[k]) for k in alarms) + "**"))
head = "%d changes, %d leave every check that was run silent:\n\n" % (n, silent)
table = "<!-- BENIGN_TABLE_BEGIN -->\n" + head + "\n".join(rows) + "\n<!-- BENIGN_TABLE_END -->"
p = os.path.join(VERIF, "DESIGN.md")
s = open(p).read()
s = re.sub(r"<!-- BENIGN_TABLE_BEGIN -->.*?<!-- BENIGN_TABLE_END -->", lambda m: table, s, flags=re.S)
open(p, "w").write(s)
print(head)
