//! One module per property.
pub mod c01;
pub mod c02;
pub mod c03;
pub mod c04;
pub mod c05;
pub mod c06;
pub mod c07;
pub mod c08;
pub mod c09;
pub mod c10;
pub mod c11;
pub mod c12;
pub mod c13;
pub mod c14;
pub mod c15;
pub mod c16;
pub mod c17;
pub mod c18;
pub mod parsers;

use crate::engine::{run, Opts};

pub const ALL: &[&str] = &["C01", "C02", "C03", "C04", "C05", "C06", "C07", "C08", "C09", "C10", "C11", "C12", "C13", "C14", "C15", "C16", "C17", "C18"];

pub fn dispatch(id: &str, opts: &Opts) -> i32 {
    match id {
        "C01" => run::<c01::C01>(opts),
        "C02" => run::<c02::C02>(opts),
        "C03" => run::<c03::C03>(opts),
        "C04" => run::<c04::C04>(opts),
        "C05" => run::<c05::C05>(opts),
        "C06" => run::<c06::C06>(opts),
        "C07" => run::<c07::C07>(opts),
        "C08" => run::<c08::C08>(opts),
        "C09" => run::<c09::C09>(opts),
        "C10" => run::<c10::C10>(opts),
        "C11" => run::<c11::C11>(opts),
        "C12" => run::<c12::C12>(opts),
        "C13" => run::<c13::C13>(opts),
        "C14" => run::<c14::C14>(opts),
        "C15" => run::<c15::C15>(opts),
        "C16" => run::<c16::C16>(opts),
        "C17" => run::<c17::C17>(opts),
        "C18" => run::<c18::C18>(opts),
        other => {
            eprintln!("unknown property {other}");
            2
        }
    }
}
