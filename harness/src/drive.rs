//! Drivers for every decoding front-end of the crate, producing a normalised event list.
//! Every loop has a deterministic step cap derived from the input size.

use sml_rs::transport::{decode, decode_streaming, DecodeErr, Decoder, ReadDecodedError};
use sml_rs::util::{ArrayBuf, Buffer};
use sml_rs::{DecodedBytes, SmlReader, SmlReaderBuilder};
use std::cell::Cell;
use std::io;
use std::rc::Rc;

/// Buffer kinds that can be handed to every front-end.
pub trait BufKind {
    type B: Buffer;
    const NAME: &'static str;
    /// capacity (usize::MAX for the growable buffer)
    const CAP: usize;
    fn builder() -> SmlReaderBuilder<Self::B>;
}

pub struct Arr<const N: usize>;
impl<const N: usize> BufKind for Arr<N> {
    type B = ArrayBuf<N>;
    const NAME: &'static str = "ArrayBuf";
    const CAP: usize = N;
    fn builder() -> SmlReaderBuilder<ArrayBuf<N>> {
        SmlReader::with_static_buffer::<N>()
    }
}

pub struct VecK;
impl BufKind for VecK {
    type B = Vec<u8>;
    const NAME: &'static str = "Vec";
    const CAP: usize = usize::MAX;
    fn builder() -> SmlReaderBuilder<Vec<u8>> {
        SmlReader::with_vec_buffer()
    }
}

#[derive(Debug, Clone, PartialEq, Eq)]
pub enum Ev {
    Msg(Vec<u8>),
    Err(DecodeErr),
    /// IoErr(Eof, n)
    IoEof(usize),
    /// IoErr(WouldBlock, n) (n must be 0)
    IoWouldBlock(usize),
    /// IoErr(other kind, n)
    IoOther(String, usize),
    /// `next` returned None
    End,
}

impl Ev {
    pub fn short(&self) -> String {
        match self {
            Ev::Msg(m) => format!("Ok({})", crate::util::hex_short(m, 24)),
            Ev::Err(e) => format!("Err({:?})", e),
            Ev::IoEof(n) => format!("IoErr(Eof,{n})"),
            Ev::IoWouldBlock(n) => format!("IoErr(WouldBlock,{n})"),
            Ev::IoOther(k, n) => format!("IoErr({k},{n})"),
            Ev::End => "None".into(),
        }
    }
    pub fn is_msg(&self) -> bool {
        matches!(self, Ev::Msg(_))
    }
}

pub fn show(evs: &[Ev]) -> String {
    let v: Vec<String> = evs.iter().take(12).map(|e| e.short()).collect();
    let more = if evs.len() > 12 { format!(" ..(+{})", evs.len() - 12) } else { String::new() };
    format!("[{}]{}", v.join(", "), more)
}

pub fn show_pos(evs: &[(usize, Ev)]) -> String {
    let v: Vec<String> = evs.iter().take(12).map(|(p, e)| format!("@{p}:{}", e.short())).collect();
    let more = if evs.len() > 12 { format!(" ..(+{})", evs.len() - 12) } else { String::new() };
    format!("[{}]{}", v.join(", "), more)
}

// ---------------------------------------------------------------------------------------
// push decoder
// ---------------------------------------------------------------------------------------

/// Feeds `stream` to `dec`, returning (consumed count, event) for every non-`Ok(None)` result.
pub fn push_all<B: Buffer>(dec: &mut Decoder<B>, stream: &[u8], base: usize, out: &mut Vec<(usize, Ev)>) {
    for (i, &b) in stream.iter().enumerate() {
        match dec.push_byte(b) {
            Ok(None) => {}
            Ok(Some(m)) => out.push((base + i + 1, Ev::Msg(m.to_vec()))),
            Err(e) => out.push((base + i + 1, Ev::Err(e))),
        }
    }
}

/// Fresh push decoder over the stream followed by `finalize()`.
pub fn push_decoder<K: BufKind>(stream: &[u8]) -> (Vec<(usize, Ev)>, Option<DecodeErr>) {
    let mut dec = Decoder::<K::B>::new();
    let mut out = Vec::new();
    push_all(&mut dec, stream, 0, &mut out);
    let fin = dec.finalize();
    (out, fin)
}

/// A buffer of kind `B` that already holds (up to its capacity) the given stale bytes.
pub fn prefilled<B: Buffer>(junk: &[u8]) -> B {
    let mut b = B::default();
    for &x in junk {
        if b.push(x).is_err() {
            break;
        }
    }
    b
}

/// Stale buffer contents used for `Decoder::from_buf`: a few zeros / 0x1b / data bytes derived from the stream.
pub fn junk_for(stream: &[u8]) -> Vec<u8> {
    let mut j = vec![0x00, 0x1b, 0x5a, 0x00];
    j.extend(stream.iter().rev().take(3));
    j
}

/// Push decoder constructed with `Decoder::from_buf` over a buffer that already holds bytes, then `finalize()`.
pub fn push_decoder_from_buf<K: BufKind>(stream: &[u8]) -> (Vec<(usize, Ev)>, Option<DecodeErr>) {
    let mut dec = Decoder::<K::B>::from_buf(prefilled(&junk_for(stream)));
    let mut out = Vec::new();
    push_all(&mut dec, stream, 0, &mut out);
    let fin = dec.finalize();
    (out, fin)
}

/// Events of the push decoder with the finalize result appended as a trailing error (like `decode`).
pub fn push_decoder_flat<K: BufKind>(stream: &[u8]) -> Vec<Ev> {
    let (evs, fin) = push_decoder::<K>(stream);
    let mut v: Vec<Ev> = evs.into_iter().map(|(_, e)| e).collect();
    if let Some(e) = fin {
        v.push(Ev::Err(e));
    }
    v
}

/// Which kind of iterator a stream is handed over as (a deterministic function of the stream): the
/// generic entry points accept any `IntoIterator` over `u8` or `&u8`, and iterators differ in what
/// their `size_hint()` says (exact, lower bound 0, nothing at all).
pub fn iter_flavour(stream: &[u8]) -> usize {
    (stream.len() * 7 + stream.iter().take(3).map(|b| *b as usize).sum::<usize>()) % 5
}

fn unhinted<'a>(stream: &'a [u8]) -> impl Iterator<Item = u8> + 'a {
    let mut i = 0;
    std::iter::from_fn(move || {
        let r = stream.get(i).copied();
        i += 1;
        r
    })
}

/// The buffer encoder over the payload handed in as one of five kinds of iterator (see `iter_flavour`).
pub fn encode_any<B: Buffer>(p: &[u8]) -> Result<B, sml_rs::util::OutOfMemory> {
    use sml_rs::transport::encode;
    match iter_flavour(p) {
        0 => encode::<B>(p),
        1 => encode::<B>(p.to_vec()),
        2 => encode::<B>(p.iter().filter(|_| true)),
        3 => encode::<B>(unhinted(p)),
        _ => encode::<B>(p.iter().copied().chain(std::iter::empty())),
    }
}

pub fn decode_fn(stream: &[u8]) -> Vec<Ev> {
    let res = match iter_flavour(stream) {
        0 => decode(stream),
        1 => decode(stream.to_vec()),
        2 => decode(stream.iter().filter(|_| true)),
        3 => decode(unhinted(stream)),
        _ => decode(stream.iter().copied().chain(std::iter::empty())),
    };
    res.into_iter()
        .map(|r| match r {
            Ok(m) => Ev::Msg(m),
            Err(e) => Ev::Err(e),
        })
        .collect()
}

fn drive_decode_iterator<B: Buffer, I: Iterator<Item = u8>>(mut it: sml_rs::transport::DecodeIterator<B, I>, n: usize, extra: usize) -> Result<Vec<Ev>, String> {
    let cap = n + 2;
    let mut out = Vec::new();
    let mut calls = 0;
    loop {
        calls += 1;
        if calls > cap {
            return Err(format!("decode_streaming yielded more than {} items for {} input bytes", cap, n));
        }
        match it.next() {
            None => break,
            Some(Ok(m)) => out.push(Ev::Msg(m.to_vec())),
            Some(Err(e)) => out.push(Ev::Err(e)),
        }
    }
    for k in 0..extra {
        if let Some(x) = it.next() {
            return Err(format!("decode_streaming returned {:?} on call {} after None", x.map(|m| m.to_vec()), k + 1));
        }
    }
    Ok(out)
}

/// `decode_streaming` driven until it returns None, then `extra` more calls.
/// Err(msg) if the step cap is exceeded or a later call yields something.
pub fn decode_streaming_fn<K: BufKind>(stream: &[u8], extra: usize) -> Result<Vec<Ev>, String> {
    let n = stream.len();
    match iter_flavour(stream) {
        0 => drive_decode_iterator(decode_streaming::<K::B>(stream), n, extra),
        1 => drive_decode_iterator(decode_streaming::<K::B>(stream.to_vec()), n, extra),
        2 => drive_decode_iterator(decode_streaming::<K::B>(stream.iter().filter(|_| true)), n, extra),
        3 => drive_decode_iterator(decode_streaming::<K::B>(unhinted(stream)), n, extra),
        _ => drive_decode_iterator(decode_streaming::<K::B>(stream.iter().copied().chain(std::iter::empty())), n, extra),
    }
}

// ---------------------------------------------------------------------------------------
// readers
// ---------------------------------------------------------------------------------------

fn conv_io(r: Result<&[u8], ReadDecodedError<io::Error>>) -> Ev {
    match r {
        Ok(m) => Ev::Msg(m.to_vec()),
        Err(ReadDecodedError::DecodeErr(e)) => Ev::Err(e),
        Err(ReadDecodedError::IoErr(e, n)) => match e.kind() {
            io::ErrorKind::UnexpectedEof => Ev::IoEof(n),
            io::ErrorKind::WouldBlock => Ev::IoWouldBlock(n),
            k => Ev::IoOther(format!("{:?}", k), n),
        },
    }
}

fn conv_eof(r: Result<&[u8], ReadDecodedError<sml_rs::util::Eof>>) -> Ev {
    match r {
        Ok(m) => Ev::Msg(m.to_vec()),
        Err(ReadDecodedError::DecodeErr(e)) => Ev::Err(e),
        Err(ReadDecodedError::IoErr(_, n)) => Ev::IoEof(n),
    }
}

/// How the reader is polled: `next` until None (+ extra calls), or `read` until IoErr(Eof,0).
#[derive(Debug, Clone, Copy, PartialEq, Eq)]
pub enum Poll {
    Next,
    Read,
}

macro_rules! drive_reader {
    ($reader:expr, $conv:ident, $poll:expr, $cap:expr, $extra:expr, $pos:expr) => {{
        let mut reader = $reader;
        let mut out: Vec<(usize, Ev)> = Vec::new();
        let mut calls = 0usize;
        let mut res: Result<(), String> = Ok(());
        loop {
            calls += 1;
            if calls > $cap {
                res = Err(format!("reader produced more than {} results", $cap));
                break;
            }
            match $poll {
                Poll::Next => match reader.next::<DecodedBytes>() {
                    None => {
                        out.push(($pos(), Ev::End));
                        break;
                    }
                    Some(r) => out.push(($pos(), $conv(r))),
                },
                Poll::Read => {
                    let ev = $conv(reader.read::<DecodedBytes>());
                    let stop = matches!(ev, Ev::IoEof(0));
                    out.push(($pos(), ev));
                    if stop {
                        break;
                    }
                }
            }
        }
        if res.is_ok() {
            for k in 0..$extra {
                // after the end of input every further call must say "end" again
                let ev = match $poll {
                    Poll::Next => match reader.next::<DecodedBytes>() {
                        None => Ev::End,
                        Some(r) => $conv(r),
                    },
                    Poll::Read => $conv(reader.read::<DecodedBytes>()),
                };
                let ok = match $poll {
                    Poll::Next => ev == Ev::End,
                    Poll::Read => ev == Ev::IoEof(0),
                };
                if !ok {
                    res = Err(format!("call {} after end of input returned {}", k + 1, ev.short()));
                    break;
                }
            }
        }
        res.map(|_| out)
    }};
}

pub fn reader_slice<K: BufKind>(stream: &[u8], poll: Poll, extra: usize) -> Result<Vec<Ev>, String> {
    let cap = stream.len() + 3;
    let r: Result<Vec<(usize, Ev)>, String> = drive_reader!(K::builder().from_slice(stream), conv_eof, poll, cap, extra, || 0usize);
    r.map(|v| v.into_iter().map(|(_, e)| e).collect())
}

pub fn reader_slice_default(stream: &[u8], poll: Poll, extra: usize) -> Result<Vec<Ev>, String> {
    let cap = stream.len() + 3;
    let r: Result<Vec<(usize, Ev)>, String> = drive_reader!(SmlReader::from_slice(stream), conv_eof, poll, cap, extra, || 0usize);
    r.map(|v| v.into_iter().map(|(_, e)| e).collect())
}

/// Reader over an iterator; positions = number of bytes pulled from the iterator.
pub fn reader_iter<K: BufKind>(stream: &[u8], poll: Poll, extra: usize) -> Result<Vec<(usize, Ev)>, String> {
    let cap = stream.len() + 3;
    let n = Rc::new(Cell::new(0usize));
    let n2 = n.clone();
    let it = stream.iter().inspect(move |_| n2.set(n2.get() + 1));
    match iter_flavour(stream) % 3 {
        0 => drive_reader!(K::builder().from_iterator(it), conv_eof, poll, cap, extra, || n.get()),
        1 => drive_reader!(K::builder().from_iterator(it.filter(|_| true)), conv_eof, poll, cap, extra, || n.get()),
        _ => {
            let mut it = it;
            drive_reader!(K::builder().from_iterator(std::iter::from_fn(move || it.next().copied())), conv_eof, poll, cap, extra, || n.get())
        }
    }
}

pub fn reader_iter_default(stream: &[u8], poll: Poll, extra: usize) -> Result<Vec<(usize, Ev)>, String> {
    let cap = stream.len() + 3;
    let n = Rc::new(Cell::new(0usize));
    let n2 = n.clone();
    let it = stream.iter().inspect(move |_| n2.set(n2.get() + 1));
    drive_reader!(SmlReader::from_iterator(it), conv_eof, poll, cap, extra, || n.get())
}

// ---------------------------------------------------------------------------------------
// scripted io::Read
// ---------------------------------------------------------------------------------------

#[derive(Debug, Clone, Copy, PartialEq, Eq)]
pub enum Step {
    Byte(u8),
    WouldBlock,
    Interrupted,
    /// any other error kind (index into OTHER_KINDS)
    Other(u8),
}

pub const OTHER_KINDS: &[io::ErrorKind] = &[
    io::ErrorKind::Other,
    io::ErrorKind::BrokenPipe,
    io::ErrorKind::TimedOut,
    io::ErrorKind::ConnectionReset,
    io::ErrorKind::InvalidData,
    io::ErrorKind::PermissionDenied,
];

pub fn other_kind_name(i: u8) -> String {
    format!("{:?}", OTHER_KINDS[i as usize % OTHER_KINDS.len()])
}

#[derive(Debug, Default)]
pub struct ScriptState {
    pub idx: usize,
    pub delivered: usize,
    /// polls at end of script (EOF reported)
    pub eof_polls: usize,
    /// largest buffer the crate asked to fill
    pub max_buf: usize,
}

/// `io::Read` that follows a script; after the script it reports end of input (Ok(0)) forever.
pub struct ScriptReader {
    pub script: Rc<Vec<Step>>,
    pub st: Rc<Cell<(usize, usize, usize)>>, // (idx, delivered, eof_polls)
}

impl ScriptReader {
    pub fn new(script: Vec<Step>) -> (Self, Rc<Cell<(usize, usize, usize)>>) {
        let st = Rc::new(Cell::new((0, 0, 0)));
        (ScriptReader { script: Rc::new(script), st: st.clone() }, st)
    }
}

impl io::Read for ScriptReader {
    fn read(&mut self, buf: &mut [u8]) -> io::Result<usize> {
        let (idx, delivered, eofs) = self.st.get();
        if buf.is_empty() {
            return Ok(0);
        }
        match self.script.get(idx) {
            None => {
                self.st.set((idx, delivered, eofs + 1));
                Ok(0)
            }
            Some(Step::Byte(b)) => {
                buf[0] = *b;
                self.st.set((idx + 1, delivered + 1, eofs));
                Ok(1)
            }
            Some(Step::WouldBlock) => {
                self.st.set((idx + 1, delivered, eofs));
                Err(io::Error::from(io::ErrorKind::WouldBlock))
            }
            Some(Step::Interrupted) => {
                self.st.set((idx + 1, delivered, eofs));
                Err(io::Error::from(io::ErrorKind::Interrupted))
            }
            Some(Step::Other(k)) => {
                self.st.set((idx + 1, delivered, eofs));
                Err(io::Error::from(OTHER_KINDS[*k as usize % OTHER_KINDS.len()]))
            }
        }
    }
}

pub fn script_of(stream: &[u8]) -> Vec<Step> {
    stream.iter().map(|b| Step::Byte(*b)).collect()
}

/// Reader over a scripted `io::Read`. Polls until the end of the script has been reported
/// (`End` for `next`, `IoEof(0)` for `read`); positions = bytes delivered by the source.
/// `max_calls` bounds the number of calls (faults produce extra results).
pub fn reader_io<K: BufKind>(script: Vec<Step>, poll: Poll, extra: usize) -> Result<Vec<(usize, Ev)>, String> {
    let cap = script.len() + 3;
    let (src, st) = ScriptReader::new(script);
    let r = drive_reader!(K::builder().from_reader(src), conv_io, poll, cap, extra, || st.get().1);
    if st.get().2 > 1000 {
        return Err(format!("source polled {} times at end of input", st.get().2));
    }
    r
}

pub fn reader_io_default(script: Vec<Step>, poll: Poll, extra: usize) -> Result<Vec<(usize, Ev)>, String> {
    let cap = script.len() + 3;
    let (src, st) = ScriptReader::new(script);
    let r = drive_reader!(SmlReader::from_reader(src), conv_io, poll, cap, extra, || st.get().1);
    if st.get().2 > 1000 {
        return Err(format!("source polled {} times at end of input", st.get().2));
    }
    r
}

pub fn strip_pos(v: Vec<(usize, Ev)>) -> Vec<Ev> {
    v.into_iter().map(|(_, e)| e).collect()
}

/// Normalises the end of input: a trailing `Err(DiscardedBytes(n))` from finalize corresponds to
/// `IoEof(n)` followed by `End`/`IoEof(0)`; no trailing item corresponds to an immediate end.
/// Returns (events before the end, leftover count).
pub fn normalise_reader_end(mut evs: Vec<Ev>, poll: Poll) -> Result<(Vec<Ev>, usize), String> {
    let term = match poll {
        Poll::Next => Ev::End,
        Poll::Read => Ev::IoEof(0),
    };
    match evs.pop() {
        Some(e) if e == term => {}
        other => return Err(format!("reader did not finish with {}: last = {:?}", term.short(), other.map(|e| e.short()))),
    }
    let mut left = 0;
    if let Some(Ev::IoEof(n)) = evs.last() {
        left = *n;
        evs.pop();
    }
    Ok((evs, left))
}

/// Same normalisation for `decode`/finalize style results: (events, leftover count).
/// Only a *final* DiscardedBytes produced by finalize counts as leftover; the caller passes
/// the finalize result separately when it is known.
pub fn split_finalize(evs: Vec<(usize, Ev)>, fin: Option<DecodeErr>) -> Result<(Vec<Ev>, usize), String> {
    let left = match fin {
        None => 0,
        Some(DecodeErr::DiscardedBytes(n)) => n,
        Some(e) => return Err(format!("finalize returned {:?}", e)),
    };
    Ok((strip_pos(evs), left))
}

// ---------------------------------------------------------------------------------------
// all front-ends on one stream
// ---------------------------------------------------------------------------------------

#[derive(Debug, Clone)]
pub struct Agreed {
    /// push-decoder events with consumed counts
    pub events: Vec<(usize, Ev)>,
    /// bytes left over at end of input (finalize's DiscardedBytes / IoErr(Eof, n))
    pub leftover: usize,
    pub frontends: usize,
}

/// Runs every decoding front-end with buffer kind `K` (plus the default reader buffer when
/// `with_default`) over `stream` and checks that they report the same payloads and decode
/// errors, with the documented end-of-input normalisation. Err((front-end name, message)).
pub fn agreement<K: BufKind>(stream: &[u8], extra: usize, with_default: bool) -> Result<Agreed, (String, String)> {
    let (events, fin) = push_decoder::<K>(stream);
    let leftover = match &fin {
        None => 0,
        Some(DecodeErr::DiscardedBytes(n)) => *n,
        Some(e) => return Err(("Decoder::finalize".into(), format!("returned {:?}", e))),
    };
    if let Some(DecodeErr::DiscardedBytes(0)) = fin {
        return Err(("Decoder::finalize".into(), "returned DiscardedBytes(0)".into()));
    }
    let mut flat: Vec<Ev> = events.iter().map(|(_, e)| e.clone()).collect();
    let plain = flat.clone();
    if let Some(e) = fin.clone() {
        flat.push(Ev::Err(e));
    }
    let mut n = 1;
    let base = format!("Decoder<{}>+finalize", K::NAME);
    let mism = |name: &str, got: String| -> (String, String) {
        (name.to_string(), format!("{} reports {} but {} reports {} (leftover {})", name, got, base, show(&plain), leftover))
    };
    // Decoder::from_buf over a buffer with stale contents
    let (ev2, fin2) = push_decoder_from_buf::<K>(stream);
    n += 1;
    if ev2 != events || fin2 != fin {
        let mut f2: Vec<Ev> = ev2.iter().map(|(_, e)| e.clone()).collect();
        if let Some(e) = fin2 {
            f2.push(Ev::Err(e));
        }
        return Err(mism("Decoder::from_buf(buffer with stale contents)+finalize", show(&f2)));
    }
    // decode()
    let d = decode_fn(stream);
    n += 1;
    if d != flat {
        return Err(mism("decode", show(&d)));
    }
    // decode_streaming
    let ds = decode_streaming_fn::<K>(stream, extra).map_err(|m| ("decode_streaming".to_string(), m))?;
    n += 1;
    if ds != flat {
        return Err(mism("decode_streaming", show(&ds)));
    }
    // readers
    for poll in [Poll::Next, Poll::Read] {
        let pn = if poll == Poll::Next { "next" } else { "read" };
        let mut results: Vec<(String, Vec<Ev>, Option<Vec<usize>>)> = Vec::new();
        let name = format!("SmlReader<{}>::from_slice.{}", K::NAME, pn);
        results.push((name.clone(), reader_slice::<K>(stream, poll, extra).map_err(|m| (name, m))?, None));
        let name = format!("SmlReader<{}>::from_iterator.{}", K::NAME, pn);
        let r = reader_iter::<K>(stream, poll, extra).map_err(|m| (name.clone(), m))?;
        results.push((name, r.iter().map(|x| x.1.clone()).collect(), Some(r.iter().map(|x| x.0).collect())));
        let name = format!("SmlReader<{}>::from_reader.{}", K::NAME, pn);
        let r = reader_io::<K>(script_of(stream), poll, extra).map_err(|m| (name.clone(), m))?;
        results.push((name, r.iter().map(|x| x.1.clone()).collect(), Some(r.iter().map(|x| x.0).collect())));
        if with_default {
            let name = format!("SmlReader<default>::from_slice.{}", pn);
            results.push((name.clone(), reader_slice_default(stream, poll, extra).map_err(|m| (name, m))?, None));
            let name = format!("SmlReader<default>::from_iterator.{}", pn);
            let r = reader_iter_default(stream, poll, extra).map_err(|m| (name.clone(), m))?;
            results.push((name, r.iter().map(|x| x.1.clone()).collect(), Some(r.iter().map(|x| x.0).collect())));
            let name = format!("SmlReader<default>::from_reader.{}", pn);
            let r = reader_io_default(script_of(stream), poll, extra).map_err(|m| (name.clone(), m))?;
            results.push((name, r.iter().map(|x| x.1.clone()).collect(), Some(r.iter().map(|x| x.0).collect())));
        }
        for (name, evs, pos) in results {
            n += 1;
            let shown = show(&evs);
            let (body, left) = normalise_reader_end(evs, poll).map_err(|m| (name.clone(), m))?;
            if body != plain || left != leftover {
                return Err(mism(&name, format!("{} (leftover {})", shown, left)));
            }
            if let Some(pos) = pos {
                // positions of the decoded results must equal the push decoder's consumed counts
                for (i, (c, _)) in events.iter().enumerate() {
                    if pos[i] != *c {
                        return Err((name.clone(), format!("{} reported result #{} after {} source bytes, the push decoder after {}", name, i, pos[i], c)));
                    }
                }
            }
        }
    }
    // the same bytes from a source that says "would block" now and then (inside the first start sequence,
    // somewhere in the middle, and right at the end): through the non-blocking API over io::Read and over the
    // embedded-hal source the decoded results must be the same once the would-block results are dropped
    if stream.len() <= 20_000 {
        let h = crate::util::fnv64(stream) as usize;
        let nlen = stream.len();
        let mut at = vec![if nlen >= 2 { 1 + h % nlen.min(7) } else { 0 }, (h >> 16) % (nlen + 1), nlen];
        at.sort();
        at.dedup();
        let mut script: Vec<Step> = Vec::with_capacity(nlen + 3);
        for (k, b) in stream.iter().enumerate() {
            if at.contains(&k) {
                script.push(Step::WouldBlock);
            }
            script.push(Step::Byte(*b));
        }
        if at.contains(&nlen) {
            script.push(Step::WouldBlock);
        }
        for (api, poll) in [(1u8, Poll::Next), (1, Poll::Read), (2, Poll::Next), (4, Poll::Read)] {
            let fe = crate::props::c11::Fe { api, poll_next: poll == Poll::Next, cap: if K::CAP == usize::MAX { None } else { Some(K::CAP) } };
            let name = format!("{} over a source with would-blocks", crate::props::c11::fe_name(fe));
            let r = crate::props::c11::run_cfg(fe, &script).map_err(|m| (name.clone(), m))?;
            let kept: Vec<Ev> = r.into_iter().map(|x| x.1).filter(|e| !matches!(e, Ev::IoWouldBlock(0))).collect();
            n += 1;
            let shown = show(&kept);
            if api == 1 {
                let (body, left) = normalise_reader_end(kept, poll).map_err(|m| (name.clone(), m))?;
                if body != plain || left != leftover {
                    return Err(mism(&name, format!("{} (leftover {})", shown, left)));
                }
            } else if kept != plain {
                // a serial source has no end of input: only the decoded results are compared
                return Err(mism(&name, shown));
            }
        }
    }
    Ok(Agreed { events, leftover, frontends: n })
}
