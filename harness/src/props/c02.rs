//! C02 - decoder soundness: a payload is reported only for an intact canonical frame.

use crate::drive::{self, BufKind, Ev, Poll, VecK};
use crate::engine::caps::{pick, CAPS};
use crate::engine::{Fail, Obs, Prop, Tier};
use crate::gen::stream::*;
use crate::refmodel::transport::{crc16_x25, ends_with_canonical_frame, START};
use crate::util::{hex_short, Kv};
use crate::{ensure, with_cap};
use proptest::prelude::*;
use sml_rs::transport::DecodeErr;

pub struct C02;

#[derive(Debug, Clone)]
pub struct Case {
    pub toks: Vec<STok>,
    pub cap: u16,
}

#[derive(Debug, Clone)]
pub struct Input {
    pub stream: Vec<u8>,
    pub cap: usize,
}

/// Does the stream contain an end sequence whose CRC is valid for a frame starting at one of
/// the (up to 4) preceding START occurrences?
pub fn has_crc_valid_end(s: &[u8]) -> bool {
    if s.len() < 16 {
        return false;
    }
    let mut starts: Vec<usize> = Vec::new();
    let mut i = 0;
    while i + 8 <= s.len() {
        if s[i] == 0x1b && s[i..i + 8] == START {
            starts.push(i);
        }
        if s[i] == 0x1b && i + 8 <= s.len() && s[i..i + 5] == [0x1b, 0x1b, 0x1b, 0x1b, 0x1a] {
            let want = s[i + 6] as u16 | (s[i + 7] as u16) << 8;
            for st in starts.iter().rev().take(4) {
                if *st + 8 <= i && i - *st < 4096 && crc16_x25(&s[*st..i + 6]) == want {
                    return true;
                }
            }
        }
        i += 1;
    }
    false
}

fn check_events(stream: &[u8], evs: &[(usize, Ev)], who: &str, obs: &mut Obs) -> Result<(), Fail> {
    for (c, e) in evs {
        match e {
            Ev::Msg(m) => {
                ensure!(
                    *c <= stream.len() && ends_with_canonical_frame(&stream[..*c], m),
                    "payload-without-canonical-frame",
                    "{} reported Ok({}) after consuming {} bytes, but the consumed bytes do not end with the canonical frame of that payload.\nstream = {}\nconsumed tail = {}",
                    who,
                    hex_short(m, 48),
                    c,
                    hex_short(stream, 96),
                    hex_short(&stream[c.saturating_sub(40).min(stream.len())..(*c).min(stream.len())], 40)
                );
                obs.count("ok-events", 1);
            }
            Ev::Err(DecodeErr::InvalidMessage { checksum_mismatch, end_esc_misaligned, num_padding_bytes, invalid_padding_bytes }) => {
                if checksum_mismatch.0 == checksum_mismatch.1 {
                    obs.count("crc-valid-rejections", 1);
                    if *end_esc_misaligned {
                        obs.class("crc-ok-reject:misaligned");
                    }
                    if *num_padding_bytes > 3 {
                        obs.class("crc-ok-reject:pad>3");
                    }
                    if *invalid_padding_bytes {
                        obs.class("crc-ok-reject:pad>withheld-zeros");
                    }
                    if !*end_esc_misaligned && *num_padding_bytes <= 3 && !*invalid_padding_bytes {
                        obs.class("crc-ok-reject:pad>frame");
                    }
                }
            }
            Ev::Err(DecodeErr::DiscardedBytes(_)) => obs.count("discard-events", 1),
            _ => {}
        }
    }
    Ok(())
}

fn run_kind<K: BufKind>(stream: &[u8], obs: &mut Obs) -> Result<usize, Fail> {
    // C02 is conditional ("whenever a payload is reported ..."): a panic inside the library is a
    // totality defect (C05), not a soundness defect. Everything reported *before* a panic is
    // still judged; the panic itself is only classified.
    let mut verdict: Result<(), Fail> = Ok(());
    let mut n_ok = 0usize;
    let who = format!("Decoder<{}<{}>>::push_byte", K::NAME, K::CAP);
    let pan = crate::engine::guard::catch(|| {
        let mut dec = sml_rs::transport::Decoder::<K::B>::new();
        for (i, &b) in stream.iter().enumerate() {
            let ev = match dec.push_byte(b) {
                Ok(None) => continue,
                Ok(Some(m)) => Ev::Msg(m.to_vec()),
                Err(e) => Ev::Err(e),
            };
            if ev.is_msg() {
                n_ok += 1;
            }
            if let Err(f) = check_events(stream, &[(i + 1, ev)], &who, obs) {
                verdict = Err(f);
                return;
            }
        }
    });
    verdict?;
    if pan.is_err() {
        obs.class("library-panic:not-judged-by-C02");
        return Ok(n_ok);
    }
    // reader over io::Read: positions are the bytes delivered by the source
    let r = crate::engine::guard::catch(|| drive::reader_io::<K>(drive::script_of(stream), Poll::Next, 0));
    if let Ok(r) = r {
        let r = r.map_err(|m| Fail::new("reader-step-cap", format!("SmlReader::from_reader: {m}; stream = {}", hex_short(stream, 96))))?;
        check_events(stream, &r, &format!("SmlReader<{}<{}>>::from_reader.next", K::NAME, K::CAP), &mut Obs::default())?;
    }
    let r = crate::engine::guard::catch(|| drive::reader_iter::<K>(stream, Poll::Read, 0));
    if let Ok(r) = r {
        let r = r.map_err(|m| Fail::new("reader-step-cap", format!("SmlReader::from_iterator: {m}; stream = {}", hex_short(stream, 96))))?;
        check_events(stream, &r, &format!("SmlReader<{}<{}>>::from_iterator.read", K::NAME, K::CAP), &mut Obs::default())?;
    }
    Ok(n_ok)
}

pub fn eval_stream(stream: &[u8], cap: usize, obs: &mut Obs) -> Result<(), Fail> {
    let n_ok = run_kind::<VecK>(stream, obs)?;
    let n_ok2 = with_cap!(cap, K => run_kind::<K>(stream, &mut Obs::default()))?;
    let crc_valid = has_crc_valid_end(stream);
    if crc_valid {
        obs.class("stream:has-crc-valid-end");
    }
    obs.class(if n_ok > 0 { "stream:yields-ok" } else { "stream:no-ok" });
    if cap < stream.len() {
        obs.class("cap:below-stream-len");
    }
    obs.count("ok-events-fixed-buffer", n_ok2 as u64);
    obs.nontrivial_if(crc_valid || n_ok > 0);
    Ok(())
}

fn exh_total(tier: Tier) -> (usize, u64) {
    let maxlen = tier.pick(5, 7);
    let mut t = 0u64;
    for l in 1..=maxlen {
        t += 13u64.pow(l as u32);
    }
    (maxlen, t)
}

impl Prop for C02 {
    const ID: &'static str = "C02";
    const RULE: &'static str = "G2 token streams (START, valid frames, mutated frames with the CRC recomputed in 70% of cases - drop/insert/flip/truncate/pad-count/shifted end/extra zeros/0x1b tail -, 0x1b and 0x00 runs, literal escapes, partial start sequences, noise runs, and END(p,j) tokens that append 1b1b1b1b 1a p plus the CRC computed from the j-th most recent start sequence, optionally zero-aligned) through the push decoder (Vec and a random ArrayBuf<N>) and SmlReader over io::Read / iterator; oracle: for every Ok(m) after c consumed bytes, stream[..c] ends with the reference frame of m. Non-trivial: the stream contains an end sequence whose CRC is valid from one of the 4 preceding start sequences (so a structural check, not the CRC, decides) or yields at least one Ok. Distinct = distinct (stream bytes, capacity).";
    type Case = Case;
    type Input = Input;

    fn budget(tier: Tier) -> u64 {
        tier.pick(1_000_000, 8_000_000)
    }

    fn strategy(tier: Tier) -> BoxedStrategy<Case> {
        let big = prop::bool::weighted(tier.pick(0.02, 0.04));
        (big, any::<u16>())
            .prop_flat_map(|(big, cap)| (stream(12, big), Just(cap)))
            .prop_map(|(toks, cap)| Case { toks, cap })
            .boxed()
    }

    fn lower(c: &Case) -> Input {
        let stream = lower_stream(&c.toks);
        // mostly a capacity that cannot overflow, sometimes a small one (out-of-memory interplay)
        let fitting: Vec<usize> = CAPS.iter().copied().filter(|n| *n >= stream.len()).collect();
        let cap = if c.cap % 5 == 0 || fitting.is_empty() { CAPS[pick(c.cap, 30)] } else { fitting[pick(c.cap, fitting.len().min(3))] };
        Input { stream, cap }
    }

    fn eval(i: &Input, obs: &mut Obs) -> Result<(), Fail> {
        eval_stream(&i.stream, i.cap, obs)
    }

    fn generator_counters() -> Vec<(String, u64)> {
        vec![("payloads-with-a-checksum-byte-steered-to-1b/1a/00/01".into(), crate::gen::payload::CRC_GROUND.load(std::sync::atomic::Ordering::Relaxed))]
    }

    fn to_kv(i: &Input) -> Kv {
        let mut kv = Kv::new();
        kv.put_b("stream", &i.stream).put_u("cap", i.cap as u64);
        kv
    }

    fn from_kv(kv: &Kv) -> Result<Input, String> {
        let cap = kv.get_u("cap")? as usize;
        if !CAPS.contains(&cap) {
            return Err(format!("capacity {cap} not in dispatch set"));
        }
        Ok(Input { stream: kv.get_b("stream")?, cap })
    }

    fn exhaustive_desc(tier: Tier) -> String {
        let (maxlen, total) = exh_total(tier);
        format!("all token sequences of length 1..={} over the 13-token alphabet {{START, 1b, 1b1b1b1b, 00, 0000, 01, 1a, a5, END(0,last start), END(1,last start), END(3,previous start), END(4,last start), END(0xf0,last start)}} ({} streams)", maxlen, total)
    }

    fn exhaustive(tier: Tier, shard: usize, nshards: usize, f: &mut dyn FnMut(&Input) -> bool) {
        let (maxlen, total) = exh_total(tier);
        let alpha = small_alphabet();
        let mut idx = shard as u64;
        while idx < total {
            // locate (len, k)
            let mut k = idx;
            let mut len = 1;
            for l in 1..=maxlen {
                let n = 13u64.pow(l as u32);
                if k < n {
                    len = l;
                    break;
                }
                k -= n;
            }
            let toks = nth_token_seq(&alpha, len, k);
            let stream = lower_stream(&toks);
            let cap = if idx % 3 == 0 { 8 } else { 64 };
            if !f(&Input { stream, cap }) {
                return;
            }
            idx += nshards as u64;
        }
    }
}
