//! Tracking allocator: thread-local counters that are armed only around the measured library call.

use std::alloc::{GlobalAlloc, Layout, System};
use std::cell::Cell;

pub struct Tracking;

#[derive(Debug, Clone, Copy, Default)]
pub struct AllocReport {
    pub calls: u64,
    pub peak_live: usize,
    pub largest: usize,
    pub refused: u64,
}

thread_local! {
    static ARMED: Cell<bool> = const { Cell::new(false) };
    static CALLS: Cell<u64> = const { Cell::new(0) };
    static LIVE: Cell<usize> = const { Cell::new(0) };
    static PEAK: Cell<usize> = const { Cell::new(0) };
    static LARGEST: Cell<usize> = const { Cell::new(0) };
    static REFUSED: Cell<u64> = const { Cell::new(0) };
    /// fault injection: fail the allocation when this countdown reaches 0 (-1 = off)
    static FAIL_IN: Cell<i64> = const { Cell::new(-1) };
    static FAIL_FIRED: Cell<bool> = const { Cell::new(false) };
}

/// A single request above this size while armed is refused (returns null); the crate then
/// fails exactly as it would on a machine that cannot satisfy the request.
pub const REFUSE_ABOVE: usize = 1 << 30;

#[inline]
fn inject_failure() -> bool {
    FAIL_IN.with(|f| {
        let v = f.get();
        if v < 0 {
            return false;
        }
        if v == 0 {
            f.set(-1);
            FAIL_FIRED.with(|x| x.set(true));
            return true;
        }
        f.set(v - 1);
        false
    })
}

#[inline]
fn on_alloc(size: usize) -> bool {
    if inject_failure() {
        return false;
    }
    ARMED.with(|a| {
        if !a.get() {
            return true;
        }
        CALLS.with(|c| c.set(c.get() + 1));
        LARGEST.with(|l| {
            if size > l.get() {
                l.set(size)
            }
        });
        if size > REFUSE_ABOVE {
            REFUSED.with(|r| r.set(r.get() + 1));
            return false;
        }
        LIVE.with(|l| {
            let v = l.get().saturating_add(size);
            l.set(v);
            PEAK.with(|p| {
                if v > p.get() {
                    p.set(v)
                }
            });
        });
        true
    })
}

#[inline]
fn on_free(size: usize) {
    ARMED.with(|a| {
        if a.get() {
            LIVE.with(|l| l.set(l.get().saturating_sub(size)));
        }
    })
}

unsafe impl GlobalAlloc for Tracking {
    unsafe fn alloc(&self, layout: Layout) -> *mut u8 {
        if !on_alloc(layout.size()) {
            return std::ptr::null_mut();
        }
        System.alloc(layout)
    }
    unsafe fn dealloc(&self, ptr: *mut u8, layout: Layout) {
        on_free(layout.size());
        System.dealloc(ptr, layout)
    }
    unsafe fn alloc_zeroed(&self, layout: Layout) -> *mut u8 {
        if !on_alloc(layout.size()) {
            return std::ptr::null_mut();
        }
        System.alloc_zeroed(layout)
    }
    unsafe fn realloc(&self, ptr: *mut u8, layout: Layout, new_size: usize) -> *mut u8 {
        if new_size > layout.size() {
            if !on_alloc(new_size) {
                return std::ptr::null_mut();
            }
            on_free(layout.size());
        } else {
            on_free(layout.size() - new_size);
        }
        System.realloc(ptr, layout, new_size)
    }
}

/// Runs `f` with the counters armed (for the current thread only) and returns its result
/// together with what was allocated while it ran. Values still alive when `f` returns
/// (its result) are included in `peak_live`.
pub fn measure<T>(f: impl FnOnce() -> T) -> (T, AllocReport) {
    CALLS.with(|c| c.set(0));
    LIVE.with(|c| c.set(0));
    PEAK.with(|c| c.set(0));
    LARGEST.with(|c| c.set(0));
    REFUSED.with(|c| c.set(0));
    struct Disarm;
    impl Drop for Disarm {
        fn drop(&mut self) {
            ARMED.with(|a| a.set(false));
        }
    }
    ARMED.with(|a| a.set(true));
    let guard = Disarm;
    let r = f();
    drop(guard);
    let rep = AllocReport {
        calls: CALLS.with(|c| c.get()),
        peak_live: PEAK.with(|c| c.get()),
        largest: LARGEST.with(|c| c.get()),
        refused: REFUSED.with(|c| c.get()),
    };
    (r, rep)
}

/// Fault injection: runs `f` with the `n`-th (0-based) heap allocation / growing reallocation of
/// the current thread failing (the allocator returns null exactly once). `f` must not allocate
/// outside the code under test. Returns (result, whether the failure was actually injected).
pub fn with_alloc_failure<T>(n: u32, f: impl FnOnce() -> T) -> (T, bool) {
    struct Off;
    impl Drop for Off {
        fn drop(&mut self) {
            FAIL_IN.with(|x| x.set(-1));
        }
    }
    FAIL_FIRED.with(|x| x.set(false));
    FAIL_IN.with(|x| x.set(n as i64));
    let guard = Off;
    let r = f();
    drop(guard);
    (r, FAIL_FIRED.with(|x| x.get()))
}
