# Data for tools/mkmanifest.py
HOOK_COMMITS = []

TRUST = "Trusted base: the harness's reference models (bitwise CRC-16/X.25 checked against 0x906E; reference Transport-v1 encoder; SML-subset reader/writer self-tested against published vectors) and proptest's generators. Holds for the generated / enumerated cases only."

CHECKS = [
    {
        "property_id": "C01",
        "technique": "property-based testing (proptest, structural shrinking) + bounded exhaustive enumeration; round-trip oracle across all encoder x front-end x buffer combinations",
        "level_text": "Generated-input search: ~120k (quick) / 3M (thorough) payloads built from token shapes with forced tail classes and boundary lengths, plus every payload over a 5-symbol alphabet up to length 6 (quick) / 9 (thorough), each pushed through all three encoders and every decoder front-end (push, decode, decode_streaming, SmlReader over slice/iterator/io::Read, next and read) with growable, exact-capacity and default buffers; identity, position and nothing-else are asserted. Exploration is the right level: the property is universally quantified over payloads and configurations and has a cheap exact oracle.",
        "design_ref": "DESIGN.md section 5, C01",
        "level_note": TRUST,
    },
    {
        "property_id": "C07",
        "technique": "property-based testing (proptest) + bounded exhaustive enumeration against an independent reference encoder",
        "level_text": "Generated-input search: ~150k (quick) / 4M (thorough) payloads incl. 0x1b runs of every length 1..13, lengths beyond 256 and 65536 and lengths chosen so the frame is within a few bytes of a fixed capacity, plus the exhaustive small-alphabet payloads; both encoders must equal the reference frame byte for byte, the iterator must stay exhausted, and OutOfMemory must be reported exactly when N < |frame|.",
        "design_ref": "DESIGN.md section 5, C07",
        "level_note": TRUST,
    },
]

_PENDING = "check under construction in this session; not claimed until it runs clean on the unchanged tree"
NOT_APPLICABLE = [
    {"property_id": "C%02d" % i, "reason": _PENDING}
    for i in range(1, 19)
    if "C%02d" % i not in [c["property_id"] for c in CHECKS]
]
