#!/usr/bin/env python3
"""Confirm a behaviour-changing but property-preserving change produced in a scratch worktree and keep it
under /verif/benign/<name>/ (patch.diff, BENIGN.md, optional demo_benign.rs, meta.json).

  tools/benign_keep.py <worktree> <name>

Confirms, in a fresh scratch worktree of /repo HEAD (removed afterwards): the patch applies, the crate compiles
and every existing test passes with default features and with nb + embedded-hal-02; the optional demonstration
passes with the change (and whether it fails without it = the change is observable).
"""
import json, os, re, shutil, subprocess, sys

def sh(cmd, cwd=None):
    return subprocess.run(cmd, shell=True, cwd=cwd, text=True, stdout=subprocess.PIPE, stderr=subprocess.STDOUT)

def main():
    wt, name = sys.argv[1], sys.argv[2]
    verif = os.path.dirname(os.path.dirname(os.path.abspath(__file__)))
    patch = sh("git diff -- src", cwd=wt).stdout
    if not patch.strip():
        print("no source change in", wt); return 1
    demo = os.path.join(wt, "tests", "demo_benign.rs")
    scratch = "/tmp/wt-verify-" + name
    sh("git -C /repo worktree remove --force %s" % scratch)
    sh("git -C /repo worktree add -q --detach %s HEAD" % scratch)
    try:
        observable = None
        if os.path.exists(demo):
            shutil.copy(demo, os.path.join(scratch, "tests", "demo_benign.rs"))
            r = sh("cargo test --offline --features nb,embedded-hal-02 --test demo_benign 2>&1 | grep -E '^test result|error'", cwd=scratch)
            observable = "FAILED" in r.stdout or "error" in r.stdout
        open(os.path.join(scratch, "p.diff"), "w").write(patch)
        r = sh("git apply p.diff", cwd=scratch)
        if r.returncode != 0:
            print("patch does not apply:", r.stdout); return 1
        out = sh("cargo test --workspace --no-fail-fast --offline 2>&1", cwd=scratch).stdout
        out2 = sh("cargo test --no-fail-fast --offline --features nb,embedded-hal-02 2>&1", cwd=scratch).stdout
        compiled = "error: could not compile" not in out + out2
        fails = re.findall(r"^test (\S+) \.\.\. FAILED", out + out2, re.M)
        ok = compiled and not fails
        print("compiled=%s failing=%s observable(demo fails without change)=%s" % (compiled, fails, observable))
        if not ok:
            print("NOT CONFIRMED"); return 1
        dst = os.path.join(verif, "benign", name)
        os.makedirs(dst, exist_ok=True)
        open(os.path.join(dst, "patch.diff"), "w").write(patch)
        if os.path.exists(demo):
            shutil.copy(demo, os.path.join(dst, "demo_benign.rs"))
        if os.path.exists(os.path.join(wt, "BENIGN.md")):
            shutil.copy(os.path.join(wt, "BENIGN.md"), os.path.join(dst, "BENIGN.md"))
        meta = {"name": name, "kind": "behaviour-changing, property-preserving (every check must stay silent)",
                "author": "independent sub-agent given only the 18 property texts and a scratch worktree",
                "confirmed": {"compiles_with_change": True, "existing_tests_pass_with_change": True,
                              "demo_passes_with_change": os.path.exists(demo) or None, "observable_by_demo": observable},
                "checks": {}}
        json.dump(meta, open(os.path.join(dst, "meta.json"), "w"), indent=1)
        print("kept", dst)
        return 0
    finally:
        sh("git -C /repo worktree remove --force %s" % scratch)
        shutil.rmtree(scratch, ignore_errors=True)

if __name__ == "__main__":
    sys.exit(main())
