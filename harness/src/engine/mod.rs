//! Sharded proptest driver, exhaustive driver, replay, evidence fragments.

pub mod alloc;
pub mod caps;
pub mod guard;

use crate::util::{fnv64, splitmix, Kv, J};
use proptest::strategy::{BoxedStrategy, Strategy};
use proptest::test_runner::{Config, RngAlgorithm, TestCaseError, TestError, TestRng, TestRunner};
use std::collections::{BTreeMap, HashSet};
use std::fmt::Debug;
use std::io::Write;
use std::sync::atomic::{AtomicBool, Ordering};
use std::sync::Mutex;
use std::time::Instant;

#[derive(Debug, Clone, Copy, PartialEq, Eq)]
pub enum Tier {
    Quick,
    Thorough,
}

impl Tier {
    pub fn name(&self) -> &'static str {
        match self {
            Tier::Quick => "quick",
            Tier::Thorough => "thorough",
        }
    }
    /// `q` for quick, `t` for thorough
    pub fn pick<T>(&self, q: T, t: T) -> T {
        match self {
            Tier::Quick => q,
            Tier::Thorough => t,
        }
    }
}

/// A violation: `sig` is the stable signature used for known-finding matching, `msg` the explanation.
#[derive(Debug, Clone)]
pub struct Fail {
    pub sig: String,
    pub msg: String,
}

impl Fail {
    pub fn new(sig: impl Into<String>, msg: impl Into<String>) -> Fail {
        Fail { sig: sig.into(), msg: msg.into() }
    }
}

#[macro_export]
macro_rules! fail {
    ($sig:expr, $($arg:tt)*) => {
        return Err($crate::engine::Fail::new($sig, format!($($arg)*)))
    };
}

#[macro_export]
macro_rules! ensure {
    ($cond:expr, $sig:expr, $($arg:tt)*) => {
        if !($cond) {
            return Err($crate::engine::Fail::new($sig, format!($($arg)*)));
        }
    };
}

/// Observations of one evaluation (classification of what the generator produced).
#[derive(Debug, Default)]
pub struct Obs {
    pub nontrivial: bool,
    pub classes: Vec<String>,
    pub counters: Vec<(&'static str, u64)>,
}

impl Obs {
    pub fn class(&mut self, c: impl Into<String>) {
        self.classes.push(c.into());
    }
    pub fn nontrivial(&mut self) {
        self.nontrivial = true;
    }
    pub fn nontrivial_if(&mut self, c: bool) {
        if c {
            self.nontrivial = true;
        }
    }
    pub fn count(&mut self, k: &'static str, n: u64) {
        if n > 0 {
            self.counters.push((k, n));
        }
    }
}

pub trait Prop: 'static {
    const ID: &'static str;
    /// how cases are generated and what makes one non-trivial
    const RULE: &'static str;
    type Case: Debug + Clone;
    type Input: Debug + Clone + Send;

    /// number of random cases (both profiles together) for the tier
    fn budget(tier: Tier) -> u64;
    fn strategy(tier: Tier) -> BoxedStrategy<Self::Case>;
    fn lower(case: &Self::Case) -> Self::Input;
    fn eval(input: &Self::Input, obs: &mut Obs) -> Result<(), Fail>;
    fn to_kv(input: &Self::Input) -> Kv;
    fn from_kv(kv: &Kv) -> Result<Self::Input, String>;

    /// Enumerates shard `shard` of `nshards` of the exhaustive part; `f` returns false to stop.
    fn exhaustive(_tier: Tier, _shard: usize, _nshards: usize, _f: &mut dyn FnMut(&Self::Input) -> bool) {}
    /// Description of what the exhaustive part enumerates (for evidence), or "" if none.
    fn exhaustive_desc(_tier: Tier) -> String {
        String::new()
    }
    /// Counters kept by the generators themselves (e.g. filter rejection rates), reported in the evidence.
    fn generator_counters() -> Vec<(String, u64)> {
        Vec::new()
    }
    /// One-line description for samples.
    fn describe(input: &Self::Input) -> String {
        let t = Self::to_kv(input).to_text().replace('\n', "; ");
        if t.len() > 400 {
            let mut cut = 400;
            while !t.is_char_boundary(cut) {
                cut -= 1;
            }
            format!("{}...", &t[..cut])
        } else {
            t
        }
    }
}

#[derive(Debug, Default)]
pub struct Stats {
    pub evaluations: u64,
    pub random: u64,
    pub exhaustive: u64,
    pub nontrivial: u64,
    pub distinct: HashSet<u64>,
    pub classes: BTreeMap<String, u64>,
    pub counters: BTreeMap<String, u64>,
    pub samples: Vec<String>,
    pub excluded_known: BTreeMap<String, u64>,
    pub rejects: u64,
}

impl Stats {
    fn record(&mut self, fp: u64, obs: &Obs, sample: impl FnOnce() -> String, exhaustive: bool) {
        self.evaluations += 1;
        if exhaustive {
            self.exhaustive += 1;
        } else {
            self.random += 1;
        }
        for c in &obs.classes {
            *self.classes.entry(c.clone()).or_insert(0) += 1;
        }
        for (k, n) in &obs.counters {
            *self.counters.entry(k.to_string()).or_insert(0) += n;
        }
        if obs.nontrivial {
            self.nontrivial += 1;
            if self.distinct.insert(fp) && self.samples.len() < 3 && (self.nontrivial % 7 == 1 || self.samples.is_empty()) {
                self.samples.push(sample());
            }
        }
    }
    fn merge(&mut self, o: Stats) {
        self.evaluations += o.evaluations;
        self.random += o.random;
        self.exhaustive += o.exhaustive;
        self.nontrivial += o.nontrivial;
        self.distinct.extend(o.distinct);
        for (k, v) in o.classes {
            *self.classes.entry(k).or_insert(0) += v;
        }
        for (k, v) in o.counters {
            *self.counters.entry(k).or_insert(0) += v;
        }
        for (k, v) in o.excluded_known {
            *self.excluded_known.entry(k).or_insert(0) += v;
        }
        for s in o.samples {
            if self.samples.len() < 8 {
                self.samples.push(s);
            }
        }
        self.rejects += o.rejects;
    }
}

#[derive(Debug, Clone)]
pub struct Opts {
    pub tier: Tier,
    pub seed: u64,
    pub profile: String,
    /// fraction of the random budget this process runs
    pub share: f64,
    pub run_exhaustive: bool,
    pub shards: usize,
    pub out: Option<String>,
    pub hashes_out: Option<String>,
    pub replay_dir: String,
    pub known_file: String,
    pub replay: Option<String>,
    /// scale factor on the random budget (for sensitivity experiments)
    pub scale: f64,
}

static STOP: AtomicBool = AtomicBool::new(false);
static HARNESS_BUG: AtomicBool = AtomicBool::new(false);

struct Failure<I> {
    shard: usize,
    input: I,
    fail: Fail,
    shrunk: bool,
    harness_bug: bool,
}

/// Known findings: signatures listed in `known_findings.txt` as `finding: property=<id> sig=<sig> <text>`.
pub fn load_known(path: &str, id: &str) -> Vec<(String, String)> {
    let mut v = Vec::new();
    if let Ok(t) = std::fs::read_to_string(path) {
        for line in t.lines() {
            let line = line.trim();
            if let Some(rest) = line.strip_prefix("finding:") {
                let rest = rest.trim();
                let mut prop = None;
                let mut sig = None;
                for tok in rest.split_whitespace() {
                    if let Some(p) = tok.strip_prefix("property=") {
                        prop = Some(p.to_string());
                    } else if let Some(s) = tok.strip_prefix("sig=") {
                        sig = Some(s.to_string());
                    }
                }
                if prop.as_deref() == Some(id) {
                    if let Some(s) = sig {
                        v.push((s, rest.to_string()));
                    }
                }
            }
        }
    }
    v
}

fn eval_guarded<P: Prop>(input: &P::Input, obs: &mut Obs) -> (Result<(), Fail>, bool) {
    match guard::catch(|| P::eval(input, obs)) {
        Ok(v) => (v, false),
        Err(p) => {
            if p.in_harness() {
                (Err(Fail::new("harness-panic", format!("HARNESS BUG: {}", p.describe()))), true)
            } else {
                // signature: panic location (stable across inputs with the same root cause)
                let sig = format!("panic@{}:{}", p.file.rsplit('/').next().unwrap_or(""), p.line);
                (Err(Fail::new(sig, format!("library code panicked: {}", p.describe()))), false)
            }
        }
    }
}

fn seed_bytes(seed: u64, id: &str, profile: &str, shard: usize) -> [u8; 32] {
    let mut x = splitmix(seed ^ fnv64(id.as_bytes()).rotate_left(17) ^ fnv64(profile.as_bytes()).rotate_left(41) ^ (shard as u64) << 8);
    let mut out = [0u8; 32];
    for c in out.chunks_mut(8) {
        x = splitmix(x);
        c.copy_from_slice(&x.to_le_bytes());
    }
    out
}

fn run_random_shard<P: Prop>(
    opts: &Opts,
    shard: usize,
    cases: u32,
    known: &[(String, String)],
) -> (Stats, Option<Failure<P::Input>>) {
    guard::thread_altstack();
    guard::claim_slot(shard);
    if cases == 0 {
        return (Stats::default(), None);
    }
    let cfg = Config {
        cases,
        failure_persistence: None,
        max_shrink_iters: 4_000,
        max_global_rejects: cases.saturating_mul(4).max(65_536),
        max_local_rejects: 1 << 20,
        verbose: 0,
        ..Config::default()
    };
    let rng = TestRng::from_seed(RngAlgorithm::ChaCha, &seed_bytes(opts.seed, P::ID, &opts.profile, shard));
    let mut runner = TestRunner::new_with_rng(cfg, rng);
    let strat = P::strategy(opts.tier);
    let stats_c = std::cell::RefCell::new(Stats::default());
    let failed = std::cell::Cell::new(false);
    let first_fail: std::cell::RefCell<Option<(P::Input, Fail, bool)>> = std::cell::RefCell::new(None);
    let text_buf = std::cell::RefCell::new(String::new());
    let res = runner.run(&strat, |case| {
        if !failed.get() && STOP.load(Ordering::Relaxed) {
            return Ok(());
        }
        let input = match guard::catch(|| P::lower(&case)) {
            Ok(i) => i,
            Err(p) => {
                // a panic while building the input is a harness bug, never a violation
                eprintln!("HARNESS BUG in lower(): {}", p.describe());
                HARNESS_BUG.store(true, Ordering::Relaxed);
                STOP.store(true, Ordering::Relaxed);
                return Ok(());
            }
        };
        let mut tb = text_buf.borrow_mut();
        *tb = P::to_kv(&input).to_text();
        guard::publish(shard, tb.as_bytes());
        let mut obs = Obs::default();
        let (verdict, harness_bug) = eval_guarded::<P>(&input, &mut obs);
        guard::clear(shard);
        match verdict {
            Ok(()) => {
                if !failed.get() {
                    stats_c.borrow_mut().record(fnv64(tb.as_bytes()), &obs, || P::describe(&input), false);
                }
                Ok(())
            }
            Err(f) => {
                if !harness_bug && known.iter().any(|(s, _)| *s == f.sig) {
                    if !failed.get() {
                        *stats_c.borrow_mut().excluded_known.entry(f.sig.clone()).or_insert(0) += 1;
                    }
                    return Ok(());
                }
                if !failed.get() {
                    failed.set(true);
                    STOP.store(true, Ordering::Relaxed);
                    *first_fail.borrow_mut() = Some((input.clone(), f.clone(), harness_bug));
                }
                Err(TestCaseError::fail(f.msg))
            }
        }
    });
    let mut stats = stats_c.into_inner();
    let first_fail = first_fail.into_inner();
    let failure = match res {
        Ok(()) => None,
        Err(TestError::Fail(_, shrunk_case)) => {
            let input = P::lower(&shrunk_case);
            let mut obs = Obs::default();
            let (verdict, harness_bug) = eval_guarded::<P>(&input, &mut obs);
            match verdict {
                Err(f) if !known.iter().any(|(s, _)| *s == f.sig) || harness_bug => {
                    Some(Failure { shard, input, fail: f, shrunk: true, harness_bug })
                }
                _ => first_fail.map(|(input, fail, harness_bug)| Failure { shard, input, fail, shrunk: false, harness_bug }),
            }
        }
        Err(TestError::Abort(reason)) => {
            // too many rejects: infrastructure problem of the generator, never a violation
            eprintln!("shard {shard}: proptest aborted: {reason}");
            stats.rejects += 1;
            first_fail.map(|(input, fail, harness_bug)| Failure { shard, input, fail, shrunk: false, harness_bug })
        }
    };
    (stats, failure)
}

fn run_exhaustive_shard<P: Prop>(
    opts: &Opts,
    shard: usize,
    nshards: usize,
    known: &[(String, String)],
) -> (Stats, Option<Failure<P::Input>>) {
    guard::thread_altstack();
    guard::claim_slot(shard);
    let mut stats = Stats::default();
    let mut failure = None;
    let mut text_buf = String::new();
    let mut cb = |input: &P::Input| -> bool {
        if STOP.load(Ordering::Relaxed) {
            return false;
        }
        text_buf = P::to_kv(input).to_text();
        guard::publish(shard, text_buf.as_bytes());
        let mut obs = Obs::default();
        let (verdict, harness_bug) = eval_guarded::<P>(input, &mut obs);
        guard::clear(shard);
        match verdict {
            Ok(()) => {
                stats.record(fnv64(text_buf.as_bytes()), &obs, || P::describe(input), true);
                true
            }
            Err(f) => {
                if !harness_bug && known.iter().any(|(s, _)| *s == f.sig) {
                    *stats.excluded_known.entry(f.sig.clone()).or_insert(0) += 1;
                    return true;
                }
                STOP.store(true, Ordering::Relaxed);
                failure = Some(Failure { shard, input: input.clone(), fail: f, shrunk: false, harness_bug });
                false
            }
        }
    };
    P::exhaustive(opts.tier, shard, nshards, &mut cb);
    (stats, failure)
}

fn write_replay<P: Prop>(opts: &Opts, input: &P::Input, fail: &Fail, shrunk: bool) -> String {
    let kv = P::to_kv(input);
    let body = kv.to_text();
    let h = fnv64(body.as_bytes());
    let _ = std::fs::create_dir_all(&opts.replay_dir);
    let path = format!("{}/{}-{}-{:016x}.case", opts.replay_dir, P::ID, opts.profile, h);
    let mut text = String::new();
    text.push_str(&format!("# property={} profile={} tier={} seed={} shrunk={}\n", P::ID, opts.profile, opts.tier.name(), opts.seed, shrunk));
    text.push_str(&format!("# signature={}\n", fail.sig));
    for l in fail.msg.lines() {
        text.push_str(&format!("# {}\n", l));
    }
    text.push_str(&body);
    let _ = std::fs::write(&path, text);
    path
}

/// Runs one property (random + exhaustive parts) in this process. Returns the exit code.
pub fn run<P: Prop>(opts: &Opts) -> i32 {
    guard::install_panic_hook();
    if let Some(path) = &opts.replay {
        return replay::<P>(opts, path);
    }
    let _ = std::fs::create_dir_all(&opts.replay_dir);
    guard::install_crash_guard(&format!("{}/{}-{}-crash-", opts.replay_dir, P::ID, opts.profile));
    let known = load_known(&opts.known_file, P::ID);
    let t0 = Instant::now();
    let total = (P::budget(opts.tier) as f64 * opts.share * opts.scale).round() as u64;
    let nshards = opts.shards.max(1);
    let merged = Mutex::new(Stats::default());
    let failures: Mutex<Vec<Failure<P::Input>>> = Mutex::new(Vec::new());

    // random part
    std::thread::scope(|s| {
        for shard in 0..nshards {
            let cases = (total / nshards as u64 + if (shard as u64) < total % nshards as u64 { 1 } else { 0 }) as u32;
            let merged = &merged;
            let failures = &failures;
            let known = &known;
            std::thread::Builder::new()
                .stack_size(256 << 20)
                .spawn_scoped(s, move || {
                    let (st, f) = run_random_shard::<P>(opts, shard, cases, known);
                    merged.lock().unwrap().merge(st);
                    if let Some(f) = f {
                        failures.lock().unwrap().push(f);
                    }
                })
                .expect("spawn");
        }
    });
    // exhaustive part
    if opts.run_exhaustive && failures.lock().unwrap().is_empty() && !P::exhaustive_desc(opts.tier).is_empty() {
        std::thread::scope(|s| {
            for shard in 0..nshards {
                let merged = &merged;
                let failures = &failures;
                let known = &known;
                std::thread::Builder::new()
                    .stack_size(256 << 20)
                    .spawn_scoped(s, move || {
                        let (st, f) = run_exhaustive_shard::<P>(opts, shard, nshards, known);
                        merged.lock().unwrap().merge(st);
                        if let Some(f) = f {
                            failures.lock().unwrap().push(f);
                        }
                    })
                    .expect("spawn");
            }
        });
    }
    let stats = merged.into_inner().unwrap();
    let mut failures = failures.into_inner().unwrap();
    failures.sort_by_key(|f| f.shard);

    let mut code = 0;
    let mut violation = J::Null;
    for (sig, n) in &stats.excluded_known {
        let text = known.iter().find(|(s, _)| s == sig).map(|(_, t)| t.clone()).unwrap_or_default();
        println!("KNOWN-FINDING: {} (hit {} times, excluded from the search)", text, n);
    }
    if HARNESS_BUG.load(Ordering::Relaxed) && failures.is_empty() {
        eprintln!("INCONCLUSIVE property={} harness bug while generating inputs (see above)", P::ID);
        code = 2;
    }
    if let Some(f) = failures.first() {
        if f.harness_bug {
            eprintln!("INCONCLUSIVE property={} harness bug: {}", P::ID, f.fail.msg);
            let path = write_replay::<P>(opts, &f.input, &f.fail, f.shrunk);
            eprintln!("in-flight case saved to {path}");
            code = 2;
        } else {
            let path = write_replay::<P>(opts, &f.input, &f.fail, f.shrunk);
            println!("VIOLATION property={} replay={}", P::ID, path);
            println!("  profile={} signature={} shrunk={}", opts.profile, f.fail.sig, f.shrunk);
            for l in f.fail.msg.lines() {
                println!("  {}", l);
            }
            println!("  case: {}", P::describe(&f.input));
            let mut v = J::obj();
            v.set("replay", J::s(path)).set("signature", J::s(f.fail.sig.clone())).set("message", J::s(f.fail.msg.clone()));
            violation = v;
            code = 1;
        }
    }

    if let Some(hp) = &opts.hashes_out {
        if let Ok(mut fh) = std::fs::File::create(hp) {
            let mut buf = Vec::with_capacity(stats.distinct.len() * 8);
            for h in &stats.distinct {
                buf.extend_from_slice(&h.to_le_bytes());
            }
            let _ = fh.write_all(&buf);
        }
    }
    if let Some(out) = &opts.out {
        let mut j = J::obj();
        j.set("property_id", J::s(P::ID))
            .set("profile", J::s(opts.profile.clone()))
            .set("tier", J::s(opts.tier.name()))
            .set("seed", J::u(opts.seed))
            .set("evaluations", J::u(stats.evaluations))
            .set("random_cases", J::u(stats.random))
            .set("exhaustive_cases", J::u(stats.exhaustive))
            .set("nontrivial", J::u(stats.nontrivial))
            .set("distinct_nontrivial", J::u(stats.distinct.len() as u64))
            .set("rule", J::s(P::RULE))
            .set("exhaustive_desc", J::s(P::exhaustive_desc(opts.tier)))
            .set("classes", J::from_counts(&stats.classes))
            .set("counters", J::from_counts(&stats.counters))
            .set("excluded_known", J::from_counts(&stats.excluded_known))
            .set("samples", J::Arr(stats.samples.iter().map(|s| J::s(s.clone())).collect()))
            .set("generator_aborts", J::u(stats.rejects))
            .set("generator_counters", J::Obj(P::generator_counters().into_iter().map(|(k, v)| (k, J::u(v))).collect()))
            .set("violations", J::u(if code == 1 { 1 } else { 0 }))
            .set("violation", violation)
            .set("wall_s", J::Num(t0.elapsed().as_secs_f64()));
        let _ = std::fs::write(out, j.to_string());
    }
    code
}

fn replay<P: Prop>(opts: &Opts, path: &str) -> i32 {
    let text = match std::fs::read_to_string(path) {
        Ok(t) => t,
        Err(e) => {
            eprintln!("cannot read {path}: {e}");
            return 2;
        }
    };
    let kv = match Kv::from_text(&text) {
        Ok(k) => k,
        Err(e) => {
            eprintln!("cannot parse {path}: {e}");
            return 2;
        }
    };
    let input = match P::from_kv(&kv) {
        Ok(i) => i,
        Err(e) => {
            eprintln!("cannot decode case in {path}: {e}");
            return 2;
        }
    };
    guard::install_crash_guard(&format!("{}/{}-{}-replaycrash-", opts.replay_dir, P::ID, opts.profile));
    guard::claim_slot(0);
    let body = P::to_kv(&input).to_text();
    guard::publish(0, body.as_bytes());
    let mut obs = Obs::default();
    let (verdict, harness_bug) = eval_guarded::<P>(&input, &mut obs);
    guard::clear(0);
    match verdict {
        Ok(()) => {
            println!("REPLAY-PASS property={} profile={} classes={:?}", P::ID, opts.profile, obs.classes);
            0
        }
        Err(f) if harness_bug => {
            eprintln!("INCONCLUSIVE harness bug: {}", f.msg);
            2
        }
        Err(f) => {
            println!("VIOLATION property={} replay={}", P::ID, path);
            println!("  profile={} signature={}", opts.profile, f.sig);
            for l in f.msg.lines() {
                println!("  {}", l);
            }
            1
        }
    }
}

/// Helper used by strategies: boxed.
pub fn boxed<S: Strategy + 'static>(s: S) -> BoxedStrategy<S::Value> {
    s.boxed()
}

/// Counts the union of 64-bit fingerprints stored in the given files (8 bytes LE each).
pub fn union_count(files: &[String]) -> u64 {
    let mut set: HashSet<u64> = HashSet::new();
    for f in files {
        if let Ok(b) = std::fs::read(f) {
            for c in b.chunks_exact(8) {
                set.insert(u64::from_le_bytes(c.try_into().unwrap()));
            }
        }
    }
    set.len() as u64
}
