//! Capacity dispatch: `Buffer` is sealed and front-ends build their buffer through `Default`,
//! so a run-time capacity needs const-generic instantiation. `with_cap!(n, K => expr)`
//! evaluates `expr` with `K = drive::Arr<n>` (a `BufKind` whose buffer is `ArrayBuf<n>`) for `n` from `CAPS`.

/// All capacities that can be dispatched. Dense for small N, boundary triples around
/// 2^5..2^16 and the 8 KiB default reader buffer, plus two large ones.
pub const CAPS: &[usize] = &[
    0, 1, 2, 3, 4, 5, 6, 7, 8, 9, 10, 11, 12, 13, 14, 15, 16, 17, 18, 19, 20, 21, 22, 23, 24, 31, 32, 33, 63, 64,
    65, 127, 128, 129, 255, 256, 257, 1023, 1024, 1025, 4095, 4096, 4097, 8191, 8192, 8193, 16384, 65535, 65536,
    65537, 70000, 140000,
];

#[macro_export]
macro_rules! cap_dispatch {
    ($n:expr, $B:ident, $body:expr; $($lit:literal),*) => {
        match $n {
            $( $lit => { #[allow(dead_code)] type $B = $crate::drive::Arr<$lit>; $body } )*
            other => panic!("capacity {} is not in the dispatch set", other),
        }
    };
}

#[macro_export]
macro_rules! with_cap {
    ($n:expr, $B:ident => $body:expr) => {
        $crate::cap_dispatch!($n, $B, $body;
            0, 1, 2, 3, 4, 5, 6, 7, 8, 9, 10, 11, 12, 13, 14, 15, 16, 17, 18, 19, 20, 21, 22, 23, 24,
            31, 32, 33, 63, 64, 65, 127, 128, 129, 255, 256, 257, 1023, 1024, 1025, 4095, 4096, 4097,
            8191, 8192, 8193, 16384, 65535, 65536, 65537, 70000, 140000)
    };
}

/// Smallest capacity in the set that is >= n (None if n is larger than all).
pub fn cap_at_least(n: usize) -> Option<usize> {
    CAPS.iter().copied().find(|c| *c >= n)
}

/// Monotone index map: `x` in 0..=u16::MAX to an index in 0..len.
pub fn pick(x: u16, len: usize) -> usize {
    ((x as usize) * len) >> 16
}
