//! C03 - parser completeness: every well-formed SML file parses to exactly its content.

use crate::engine::{Fail, Obs, Prop, Tier};
use crate::ensure;
use crate::gen::smlfile::{cfile, classify_file};
use crate::props::parsers::*;
use crate::refmodel::conv;
use crate::refmodel::sml::*;
use crate::util::{clip, hex_short, Kv};
use proptest::prelude::*;

pub struct C03;

#[derive(Debug, Clone)]
pub struct Input {
    pub wire: Vec<u8>,
    pub expect: RFile,
    pub classes: Vec<String>,
    pub nontrivial: bool,
}

/// Canonical re-encoding of an abstract file (minimal TLFs, full-width integers): used only to
/// store the expected content in a replay file.
pub fn canonical(f: &RFile) -> CFile {
    let oct = |d: &Vec<u8>| COctet { data: d.clone(), extra: 0 };
    let ooct = |d: &Option<Vec<u8>>| d.as_ref().map(|d| COctet { data: d.clone(), extra: 0 });
    let time = |t: &Option<u32>| t.map(|s| CTime::Std { list_extra: 0, tag_extra: 0, secs: CUint { value: s as u64, width: 4, extra: 0 } });
    CFile {
        msgs: f
            .msgs
            .iter()
            .map(|m| CMsg {
                list_extra: 0,
                transaction_id: oct(&m.transaction_id),
                group_no: CUint::w(m.group_no as u64, 1),
                abort_on_error: CUint::w(m.abort_on_error as u64, 1),
                body_list_extra: 0,
                tag_width: 2,
                tag_extra: 0,
                crc_short: false,
                crc_extra: 0,
                body: match &m.body {
                    RBody::Open(o) => CBody::Open {
                        list_extra: 0,
                        codepage: ooct(&o.codepage),
                        client_id: ooct(&o.client_id),
                        req_file_id: oct(&o.req_file_id),
                        server_id: oct(&o.server_id),
                        ref_time: time(&o.ref_time),
                        sml_version: o.sml_version.map(|v| CUint::w(v as u64, 1)),
                    },
                    RBody::Close { sig } => CBody::Close { list_extra: 0, sig: ooct(sig) },
                    RBody::GetList { head, entries, tail } => CBody::GetList {
                        list_extra: 0,
                        client_id: ooct(&head.client_id),
                        server_id: oct(&head.server_id),
                        list_name: ooct(&head.list_name),
                        act_sensor_time: time(&head.act_sensor_time),
                        vals_extra: 0,
                        entries: entries
                            .iter()
                            .map(|e| CEntry {
                                list_extra: 0,
                                obj_name: oct(&e.obj_name),
                                status: e.status.map(|(c, v)| CUint::w(v, c)),
                                val_time: time(&e.val_time),
                                unit: e.unit.map(|u| CUint::w(u as u64, 1)),
                                scaler: e.scaler.map(|s| CInt { value: s as i64, width: 1, extra: 0 }),
                                value: match &e.value {
                                    RValue::Bool(b) => CValue::Bool(*b as u8),
                                    RValue::Bytes(b) => CValue::Bytes(oct(b)),
                                    RValue::Int(c, v) => CValue::Int(CInt { value: *v, width: *c, extra: 0 }),
                                    RValue::Uint(c, v) => CValue::Uint(CUint::w(*v, *c)),
                                    RValue::ListTime(s) => CValue::ListTime { list_extra: 0, tag_extra: 0, time: CTime::Std { list_extra: 0, tag_extra: 0, secs: CUint::w(*s as u64, 4) } },
                                },
                                sig: ooct(&e.sig),
                            })
                            .collect(),
                        list_sig: ooct(&tail.list_sig),
                        act_gateway_time: time(&tail.act_gateway_time),
                    },
                },
            })
            .collect(),
    }
}

impl Prop for C03 {
    const ID: &'static str = "C03";
    const RULE: &'static str = "G4: abstract SML files (0..4 messages, thorough 0..8; open / close / get-list bodies; 0..40 list entries, thorough up to 261, crossing the 15/16 and 255/256 TLF boundaries; every Value variant; integers of every encoded width 1..8 with leading bytes from {00,01,7f,80,fe,ff,random}; status widths 1..8; every optional-field mask; octet strings of 0..300 bytes crossing 14/15 and 253/254; standard and vendor-workaround time; body tag in 2..4 bytes) x encoding choices (0..3 extra leading TLF bytes per field, 1- or 2-byte CRC field when the value allows), written by the reference writer. Oracle: complete::parse(bytes) == Ok(expected File) and the streaming events == the expected event sequence, compared with the crate's own PartialEq on values built from the abstract file. Non-trivial: a get-list message with >= 1 entry and at least one non-minimal TLF, multi-byte TLF, shortened integer, list-typed value or workaround time. Distinct = distinct wire encodings.";
    type Case = CFile;
    type Input = Input;

    fn budget(tier: Tier) -> u64 {
        tier.pick(200_000, 2_000_000)
    }

    fn strategy(tier: Tier) -> BoxedStrategy<CFile> {
        cfile(tier == Tier::Thorough).boxed()
    }

    fn lower(c: &CFile) -> Input {
        let mut classes = Vec::new();
        let nontrivial = classify_file(c, &mut classes);
        let w = write(c);
        if w.msgs.iter().any(|m| m.crc_width == 1) {
            classes.push("enc:one-byte-crc-field".into());
        }
        Input { wire: w.bytes, expect: c.abstract_(), classes, nontrivial }
    }

    fn eval(i: &Input, obs: &mut Obs) -> Result<(), Fail> {
        let expect_file = conv::file(&i.expect);
        let got = sml_rs::parser::complete::parse(&i.wire);
        ensure!(
            got.as_ref().ok() == Some(&expect_file),
            if got.is_err() { "valid-file-rejected" } else { "valid-file-parsed-wrongly" },
            "complete::parse of a well-formed file returns\n  {}\nexpected\n  {}\nwire ({} bytes) = {}",
            clip(format!("{:?}", got), 900),
            clip(format!("{:?}", expect_file), 900),
            i.wire.len(),
            hex_short(&i.wire, 200)
        );
        let s = run_streaming(&i.wire, 0);
        let want = events_of(&i.expect);
        ensure!(!s.cap_exceeded, "streaming-endless", "streaming parser did not finish within {} calls", i.wire.len() + 2);
        ensure!(
            s.err.is_none() && s.events == want,
            if s.err.is_some() { "valid-file-rejected-streaming" } else { "valid-file-parsed-wrongly-streaming" },
            "streaming parser on a well-formed file yields {} err={:?}\nexpected {}\nfirst difference at event #{:?}\nwire ({} bytes) = {}",
            show_events(&s.events),
            s.err,
            show_events(&want),
            s.events.iter().zip(want.iter()).position(|(a, b)| a != b),
            i.wire.len(),
            hex_short(&i.wire, 200)
        );
        for c in &i.classes {
            obs.class(c.clone());
        }
        obs.nontrivial_if(i.nontrivial);
        Ok(())
    }

    fn to_kv(i: &Input) -> Kv {
        let mut kv = Kv::new();
        kv.put_b("wire", &i.wire);
        kv.put_b("expect_canonical", &write(&canonical(&i.expect)).bytes);
        kv
    }

    fn from_kv(kv: &Kv) -> Result<Input, String> {
        let canon = kv.get_b("expect_canonical")?;
        let expect = read_file(&canon).map_err(|e| format!("expect_canonical is not a valid file: {:?}", e))?;
        Ok(Input { wire: kv.get_b("wire")?, expect, classes: vec!["replay".into()], nontrivial: true })
    }
}
