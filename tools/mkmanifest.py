#!/usr/bin/env python3
"""Writes /verif/MANIFEST.json from the table below (kept next to the code so it stays in sync)."""
import json, os, sys
VERIF = os.path.dirname(os.path.dirname(os.path.abspath(__file__)))
sys.path.insert(0, os.path.join(VERIF, "tools"))
from manifest_data import CHECKS, NOT_APPLICABLE, HOOK_COMMITS  # noqa

manifest = {
    "version": 1,
    "setup_cmd": "./run build",
    "hooks": {
        "guard": "--cfg sml_rs_verif",
        "enable": "no hooks are needed: every check observes the crate through its public API only (capacities via const-generic ArrayBuf<N>, I/O faults via a scripted std::io::Read / embedded_hal serial::Read, heap use via the harness's own global allocator); the guard name is reserved and unused",
        "baseline_off_cmd": "cd /repo && cargo test --workspace --no-fail-fast --offline",
        "source_commits": HOOK_COMMITS,
        "add_only": True,
    },
    "engines": [
        {
            "name": "smlverif",
            "path": "harness",
            "serves_properties": [c["property_id"] for c in CHECKS],
            "kind_free_text": "property-based testing: sharded proptest TestRunner (fixed seeds, structural shrinking) + bounded exhaustive enumeration + libFuzzer targets (thorough tier) against independent reference models; two build profiles (overflow-checked / wrapping); panic capture, tracking allocator, crash guard",
        }
    ],
    "checks": [],
    "not_applicable": NOT_APPLICABLE,
    "notes": "Entry point ./run <ID> quick|thorough, ./run <ID> --replay <file>. Exit 0 held / 1 VIOLATION / 2 inconclusive. Known findings in known_findings.txt (only 'fixed:' lines at present). See DESIGN.md.",
}
for c in CHECKS:
    pid = c["property_id"]
    manifest["checks"].append({
        "property_id": pid,
        "quick_cmd": "./run %s quick" % pid,
        "thorough_cmd": "./run %s thorough" % pid,
        "evidence_file": "/verif/evidence/%s.json" % pid,
        "replay_cmd_template": "./run %s --replay {path}" % pid,
        "engine": "smlverif",
        "level_claimed": {"category": "exploration", "text": c["level_text"], "design_ref": c["design_ref"]},
        "level_note": c["level_note"],
        "technique": c["technique"],
    })
with open(os.path.join(VERIF, "MANIFEST.json"), "w") as fh:
    json.dump(manifest, fh, indent=1)
    fh.write("\n")
print("wrote MANIFEST.json with %d checks, %d not_applicable" % (len(manifest["checks"]), len(NOT_APPLICABLE)))
