#!/usr/bin/env python3
"""Prints markdown tables for DESIGN.md from sensitivity result files.
  tools/mk_sens_tables.py seeded <results-seeded.txt>     (also updates seeded/*/meta.json)
  tools/mk_sens_tables.py own <results-own.txt>
"""
import json, os, re, sys
VERIF = os.path.dirname(os.path.dirname(os.path.abspath(__file__)))
kind, path = sys.argv[1], sys.argv[2]
rows = []
for line in open(path):
    if line.startswith("    ") or not line.strip():
        continue
    parts = line.split()
    name = parts[0]
    res = dict(p.split("=") for p in parts[1:] if "=" in p)
    if not res:
        continue
    rows.append((name, res))
if kind == "seeded":
    print("| Seeded change | Breaks | What it needs to manifest | Detected by (quick tier) | Own check |")
    print("|---|---|---|---|---|")
    for name, res in rows:
        d = os.path.join(VERIF, "seeded", name)
        if not os.path.isdir(d):
            continue
        meta = json.load(open(os.path.join(d, "meta.json")))
        meta["checks"] = res
        meta["detected_by"] = sorted(k for k, v in res.items() if v == "DETECTED")
        json.dump(meta, open(os.path.join(d, "meta.json"), "w"), indent=1)
        pid = meta["breaks_property"]
        det = ", ".join(meta["detected_by"]) or "**none**"
        own = "yes" if res.get(pid) == "DETECTED" else "**no**"
        needs = meta.get("needs_short", "see MUTANT.md")
        print("| `%s` | %s | %s | %s | %s |" % (name, pid, needs, det, own))
else:
    print("| Own mutant | Repo tests | Result |")
    print("|---|---|---|")
    tests = {}
    tp = os.path.join(VERIF, "sens", "TESTS.txt")
    if os.path.exists(tp):
        for l in open(tp):
            p = l.split()
            if len(p) >= 2:
                tests[p[0].replace(".diff", "")] = p[1]
    for name, res in rows:
        print("| `%s` | %s | %s |" % (name, tests.get(name, "?"), ", ".join("%s %s" % (k, "**DETECTED**" if v == "DETECTED" else v) for k, v in res.items())))
