#!/bin/bash
# Line coverage of /repo/src under the quick tier of all 18 checks (10 % budget, release profile).
# Everything is written to a scratch directory outside /verif and /repo, which is removed at the end.
#   tools/cov.sh [scale]        prints the llvm-cov report and the uncovered lines that are not formatting code
set -e
D=$(mktemp -d /tmp/smlcov.XXXX); SCALE=${1:-0.1}
LL=$(dirname $(find ~/.rustup/toolchains/nightly-x86_64-unknown-linux-gnu -name llvm-cov | head -1))
cd /verif/harness
CARGO_NET_OFFLINE=true RUSTFLAGS="-C instrument-coverage -A mismatched_lifetime_syntaxes" cargo +nightly build --offline --profile wrap --target-dir $D/target --bin check 2>&1 | tail -1
cd $D
for i in $(seq -w 1 18); do
  LLVM_PROFILE_FILE=$D/c$i-%p.profraw ./target/wrap/check C$i --tier quick --profile wrap --scale $SCALE --replay-dir $D/replays --out $D/frag-$i.json >/dev/null 2>&1 || echo "C$i exit $?"
done
$LL/llvm-profdata merge -sparse *.profraw -o all.profdata
FILES=$(ls /repo/src/*.rs /repo/src/*/*.rs)
$LL/llvm-cov report ./target/wrap/check -instr-profile=all.profdata $FILES 2>/dev/null | cut -c1-200
for f in $FILES; do
  $LL/llvm-cov show ./target/wrap/check -instr-profile=all.profdata $f 2>/dev/null | grep -E "^ +[0-9]+\| +0\|" | grep -v "x.field\|fmt::\|let mut x\|x.finish\|f.debug\|write!(f\|if let Some(e) = &self\|^ +[0-9]+\| +0\| +}\|match self {\|arg0.fmt(f)" | sed "s|^|$f: |" | cut -c1-170
done
cd /; rm -rf $D
