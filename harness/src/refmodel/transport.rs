//! R1 + R2: CRC-16/X.25 and the Transport-v1 reference encoder.
//!
//! Written from the property text / the SML transport description, not from the crate:
//! `1b1b1b1b 01010101`, payload with `1b1b1b1b` inserted after every fourth *consecutive*
//! `1b`, 0-3 zero bytes up to the next multiple of four, `1b1b1b1b 1a`, pad count, CRC
//! (little endian) of everything before it.

pub const START: [u8; 8] = [0x1b, 0x1b, 0x1b, 0x1b, 0x01, 0x01, 0x01, 0x01];
pub const ESC: [u8; 4] = [0x1b; 4];

/// Bit-by-bit CRC-16/X.25 (reflected poly 0x8408, init 0xFFFF, xorout 0xFFFF).
pub fn crc16_x25(data: &[u8]) -> u16 {
    crc16_x25_finish(crc16_x25_update(0xFFFF, data))
}

pub fn crc16_x25_update(mut crc: u16, data: &[u8]) -> u16 {
    for &b in data {
        crc ^= b as u16;
        for _ in 0..8 {
            if crc & 1 != 0 {
                crc = (crc >> 1) ^ 0x8408;
            } else {
                crc >>= 1;
            }
        }
    }
    crc
}

pub fn crc16_x25_finish(crc: u16) -> u16 {
    crc ^ 0xFFFF
}

/// Table-free but byte-at-a-time variant used where the harness needs many running CRCs
/// (same function, verified against `crc16_x25` in the self test).
pub struct RunningCrc(pub u16);
impl RunningCrc {
    pub fn new() -> Self {
        RunningCrc(0xFFFF)
    }
    pub fn push(&mut self, b: u8) {
        self.0 = crc16_x25_update(self.0, &[b]);
    }
    pub fn value(&self) -> u16 {
        self.0 ^ 0xFFFF
    }
}

#[derive(Debug, Clone, Copy, PartialEq, Eq)]
pub enum TokKind {
    Start,
    Data,
    /// the 4 inserted escape bytes (the 4 data `1b` before them are `Data`)
    InsertedEsc,
    Pad,
    End,
}

#[derive(Debug, Clone)]
pub struct Frame {
    pub bytes: Vec<u8>,
    /// (kind, start offset, end offset) in wire order
    pub toks: Vec<(TokKind, usize, usize)>,
    pub pad: u8,
}

impl Frame {
    pub fn end_start(&self) -> usize {
        self.toks.iter().find(|t| t.0 == TokKind::End).map(|t| t.1).unwrap()
    }
    /// k is an admissible cut point (C08): k >= 8, not inside the end sequence, byte k-1 is
    /// not 0x1b (conservative reading of "no escape sequence or 0x1b run is in progress").
    pub fn cut_admissible(&self, k: usize) -> bool {
        k >= 8 && k <= self.end_start() && k <= self.bytes.len() && self.bytes[k - 1] != 0x1b
    }
    /// Decoder phase at wire offset `k` (which token the k-th byte belongs to), for classification.
    pub fn phase_at(&self, k: usize) -> &'static str {
        for (kind, s, e) in &self.toks {
            if k >= *s && k < *e {
                return match kind {
                    TokKind::Start => "start-seq",
                    TokKind::Data => {
                        if self.bytes[k] == 0x1b {
                            "data-1b"
                        } else if self.bytes[k] == 0 {
                            "data-00"
                        } else {
                            "data"
                        }
                    }
                    TokKind::InsertedEsc => "inserted-esc",
                    TokKind::Pad => "pad",
                    TokKind::End => "end-seq",
                };
            }
        }
        "after-frame"
    }
}

pub fn ref_frame_struct(payload: &[u8]) -> Frame {
    let mut bytes = Vec::with_capacity(payload.len() + payload.len() / 4 + 20);
    let mut toks = Vec::new();
    bytes.extend_from_slice(&START);
    toks.push((TokKind::Start, 0, 8));
    let mut run = 0usize;
    let mut data_start = bytes.len();
    for &b in payload {
        bytes.push(b);
        if b == 0x1b {
            run += 1;
            if run == 4 {
                toks.push((TokKind::Data, data_start, bytes.len()));
                let s = bytes.len();
                bytes.extend_from_slice(&ESC);
                toks.push((TokKind::InsertedEsc, s, bytes.len()));
                data_start = bytes.len();
                run = 0;
            }
        } else {
            run = 0;
        }
    }
    if bytes.len() > data_start {
        toks.push((TokKind::Data, data_start, bytes.len()));
    }
    let pad = (4 - bytes.len() % 4) % 4;
    if pad > 0 {
        let s = bytes.len();
        for _ in 0..pad {
            bytes.push(0);
        }
        toks.push((TokKind::Pad, s, bytes.len()));
    }
    let s = bytes.len();
    bytes.extend_from_slice(&ESC);
    bytes.push(0x1a);
    bytes.push(pad as u8);
    let crc = crc16_x25(&bytes);
    bytes.push((crc & 0xff) as u8);
    bytes.push((crc >> 8) as u8);
    toks.push((TokKind::End, s, bytes.len()));
    Frame { bytes, toks, pad: pad as u8 }
}

pub fn ref_frame(payload: &[u8]) -> Vec<u8> {
    ref_frame_struct(payload).bytes
}

/// Length of the canonical frame for a payload (without building it).
pub fn ref_frame_len(payload: &[u8]) -> usize {
    let mut n = 8usize;
    let mut run = 0;
    for &b in payload {
        n += 1;
        if b == 0x1b {
            run += 1;
            if run == 4 {
                n += 4;
                run = 0;
            }
        } else {
            run = 0;
        }
    }
    n += (4 - n % 4) % 4;
    n + 8
}

/// Does `hay` contain `needle`?
pub fn find_sub(hay: &[u8], needle: &[u8]) -> Option<usize> {
    if needle.is_empty() {
        return Some(0);
    }
    if hay.len() < needle.len() {
        return None;
    }
    (0..=hay.len() - needle.len()).find(|&i| &hay[i..i + needle.len()] == needle)
}

/// Number of occurrences of START in `g ++ START` other than the one at offset |g| is zero.
pub fn noise_admissible(g: &[u8]) -> bool {
    // Search g ++ START for START at any offset < |g|.
    let mut v = Vec::with_capacity(g.len().min(64) + 8);
    // Only the last 7 bytes of g can combine with START; occurrences fully inside g are checked on g.
    if find_sub(g, &START).is_some() {
        return false;
    }
    let tail = &g[g.len().saturating_sub(7)..];
    v.extend_from_slice(tail);
    v.extend_from_slice(&START);
    match find_sub(&v, &START) {
        Some(i) => i == tail.len(),
        None => false,
    }
}

/// `stream[..c]` ends with the canonical frame of `m` (C02's oracle).
pub fn ends_with_canonical_frame(stream_prefix: &[u8], m: &[u8]) -> bool {
    let n = ref_frame_len(m);
    if n > stream_prefix.len() {
        return false;
    }
    let f = ref_frame(m);
    stream_prefix[stream_prefix.len() - n..] == f[..]
}

#[cfg(test)]
mod tests {
    use super::*;
    #[test]
    fn crc_check_value() {
        assert_eq!(crc16_x25(b"123456789"), 0x906E);
        let mut r = RunningCrc::new();
        for b in b"123456789" {
            r.push(*b);
        }
        assert_eq!(r.value(), 0x906E);
    }
    #[test]
    fn frame_vectors_from_spec_examples() {
        // published example (also in the crate's docs): 12345678 -> crc b8 7b
        let f = ref_frame(&[0x12, 0x34, 0x56, 0x78]);
        assert_eq!(
            f,
            vec![
                0x1b, 0x1b, 0x1b, 0x1b, 1, 1, 1, 1, 0x12, 0x34, 0x56, 0x78, 0x1b, 0x1b, 0x1b, 0x1b,
                0x1a, 0, 0xb8, 0x7b
            ]
        );
        assert_eq!(ref_frame_len(&[0x12, 0x34, 0x56, 0x78]), 20);
        let f = ref_frame_struct(&[0x1b; 5]);
        assert_eq!(f.bytes.len(), 8 + 4 + 4 + 1 + 3 + 8);
        assert_eq!(f.pad, 3);
        assert_eq!(ref_frame_len(&[0x1b; 5]), f.bytes.len());
        assert_eq!(ref_frame(&[]).len(), 16);
    }
    #[test]
    fn noise_rule() {
        assert!(noise_admissible(&[]));
        assert!(noise_admissible(&[0x1b]));
        assert!(noise_admissible(&[0x1b, 0x1b, 0x1b, 0x1b, 1]));
        assert!(noise_admissible(&[0x1b, 0x1b, 0x1b, 0x1b, 1, 1, 1]));
        assert!(!noise_admissible(&START));
        let mut g = START.to_vec();
        g.push(5);
        assert!(!noise_admissible(&g));
    }
}
