//! C11 - I/O faults: would-block is transparent, errors cost only the frame in flight.

use crate::drive::{self, BufKind, Ev, Poll, Step, VecK};
use crate::engine::caps::{pick, CAPS};
use crate::engine::{Fail, Obs, Prop, Tier};
use crate::gen::faults::*;
use crate::gen::payload::moderate_payload;
use crate::gen::stream::*;
use crate::refmodel::tiling::Tiling;
use crate::refmodel::transport::ref_frame;
use crate::util::{hex_short, Kv};
use crate::{ensure, with_cap};
use proptest::prelude::*;
use sml_rs::transport::{DecodeErr, ReadDecodedError};
use sml_rs::DecodedBytes;
use std::cell::Cell;
use std::rc::Rc;

pub struct C11;

/// Front-end under test.
#[derive(Debug, Clone, Copy, PartialEq, Eq)]
pub struct Fe {
    /// 0: io::Read + read/next, 1: io::Read + read_nb/next_nb, 2: embedded-hal reader + read_nb/next_nb,
    /// 3: embedded-hal reader through SmlReader::from_eh_reader (default buffer), 4: embedded-hal reader polled
    /// through the blocking API read / next (a would-block then surfaces as IoErr(nb::Error::WouldBlock, 0))
    pub api: u8,
    pub poll_next: bool,
    /// None: growable buffer; Some(n): ArrayBuf<n>
    pub cap: Option<usize>,
}

#[derive(Debug, Clone)]
pub struct Case {
    pub toks: Vec<STok>,
    pub faults: Vec<FaultSpec>,
    pub api: u8,
    pub poll_next: bool,
    pub cap: Option<u16>,
    /// force one fault strictly inside the first frame
    pub inside: Option<(u16, Step)>,
}

#[derive(Debug, Clone)]
pub struct Input {
    pub stream: Vec<u8>,
    pub faults: Faults,
    pub fe: Fe,
}

// ---------------------------------------------------------------------------------------
// scripted embedded-hal reader
// ---------------------------------------------------------------------------------------

pub struct EhScript {
    script: Vec<Step>,
    st: Rc<Cell<(usize, usize)>>, // (idx, delivered)
    /// set when the source was polled beyond the end of the script (it then says "would block")
    beyond: Rc<Cell<bool>>,
}

impl embedded_hal_02::serial::Read<u8> for EhScript {
    type Error = u8;
    fn read(&mut self) -> nb::Result<u8, u8> {
        let (idx, delivered) = self.st.get();
        match self.script.get(idx) {
            None => {
                self.beyond.set(true);
                Err(nb::Error::WouldBlock)
            }
            Some(Step::Byte(b)) => {
                self.st.set((idx + 1, delivered + 1));
                Ok(*b)
            }
            Some(Step::WouldBlock) | Some(Step::Interrupted) => {
                self.st.set((idx + 1, delivered));
                Err(nb::Error::WouldBlock)
            }
            Some(Step::Other(k)) => {
                self.st.set((idx + 1, delivered));
                Err(nb::Error::Other(*k))
            }
        }
    }
}

fn conv_nb_io(r: nb::Result<&[u8], ReadDecodedError<std::io::Error>>) -> Ev {
    match r {
        Ok(m) => Ev::Msg(m.to_vec()),
        Err(nb::Error::WouldBlock) => Ev::IoWouldBlock(0),
        Err(nb::Error::Other(ReadDecodedError::DecodeErr(e))) => Ev::Err(e),
        Err(nb::Error::Other(ReadDecodedError::IoErr(e, n))) => match e.kind() {
            std::io::ErrorKind::UnexpectedEof => Ev::IoEof(n),
            // a would-block must surface as nb::Error::WouldBlock, never wrapped
            std::io::ErrorKind::WouldBlock => Ev::IoOther("WouldBlock-wrapped-in-Other".into(), n),
            k => Ev::IoOther(format!("{:?}", k), n),
        },
    }
}

/// Blocking API over the embedded-hal source: the source's would-block is an I/O error of its own kind.
fn conv_blocking_eh(r: Result<&[u8], ReadDecodedError<nb::Error<u8>>>) -> Ev {
    match r {
        Ok(m) => Ev::Msg(m.to_vec()),
        Err(ReadDecodedError::DecodeErr(e)) => Ev::Err(e),
        Err(ReadDecodedError::IoErr(nb::Error::WouldBlock, n)) => Ev::IoWouldBlock(n),
        Err(ReadDecodedError::IoErr(nb::Error::Other(k), n)) => Ev::IoOther(drive::other_kind_name(k), n),
    }
}

fn conv_nb_eh(r: nb::Result<&[u8], ReadDecodedError<nb::Error<u8>>>) -> Ev {
    match r {
        Ok(m) => Ev::Msg(m.to_vec()),
        Err(nb::Error::WouldBlock) => Ev::IoWouldBlock(0),
        Err(nb::Error::Other(ReadDecodedError::DecodeErr(e))) => Ev::Err(e),
        Err(nb::Error::Other(ReadDecodedError::IoErr(e, n))) => match e {
            nb::Error::WouldBlock => Ev::IoOther("WouldBlock-wrapped-in-Other".into(), n),
            nb::Error::Other(k) => Ev::IoOther(drive::other_kind_name(k), n),
        },
    }
}

/// Runs the front-end over the script until the end of input has been reported (io::Read) or
/// the script is exhausted (embedded-hal, which has no end of input).
fn run_fe<K: BufKind>(fe: Fe, script: &[Step]) -> Result<Vec<(usize, Ev)>, String> {
    let poll = if fe.poll_next { Poll::Next } else { Poll::Read };
    match fe.api {
        0 => drive::reader_io::<K>(script.to_vec(), poll, 2),
        1 => {
            let (src, st) = drive::ScriptReader::new(script.to_vec());
            let mut reader = K::builder().from_reader(src);
            let mut out = Vec::new();
            let cap = script.len() + 3;
            for _ in 0..cap {
                let ev = if fe.poll_next {
                    match reader.next_nb::<DecodedBytes>() {
                        Ok(None) => Ev::End,
                        Ok(Some(m)) => Ev::Msg(m.to_vec()),
                        Err(e) => conv_nb_io(Err(e)),
                    }
                } else {
                    conv_nb_io(reader.read_nb::<DecodedBytes>())
                };
                let stop = ev == Ev::End || ev == Ev::IoEof(0);
                out.push((st.get().1, ev));
                if stop {
                    // further calls keep reporting the end
                    for k in 0..2 {
                        let again = if fe.poll_next {
                            match reader.next_nb::<DecodedBytes>() {
                                Ok(None) => Ev::End,
                                Ok(Some(m)) => Ev::Msg(m.to_vec()),
                                Err(e) => conv_nb_io(Err(e)),
                            }
                        } else {
                            conv_nb_io(reader.read_nb::<DecodedBytes>())
                        };
                        if again != out.last().unwrap().1 {
                            return Err(format!("call {} after the end of input returned {}", k + 1, again.short()));
                        }
                    }
                    return Ok(out);
                }
            }
            Err(format!("reader produced more than {} results", cap))
        }
        api => {
            let st = Rc::new(Cell::new((0usize, 0usize)));
            let beyond = Rc::new(Cell::new(false));
            let src = EhScript { script: script.to_vec(), st: st.clone(), beyond: beyond.clone() };
            macro_rules! drive_eh {
                ($reader:expr) => {{
                    let mut reader = $reader;
                    let mut out = Vec::new();
                    let cap = script.len() + 3;
                    let mut calls = 0;
                    while st.get().0 < script.len() {
                        calls += 1;
                        if calls > cap {
                            return Err(format!("reader produced more than {} results", cap));
                        }
                        let ev = match (fe.api == 4, fe.poll_next) {
                            (false, true) => match reader.next_nb::<DecodedBytes>() {
                                Ok(None) => Ev::End,
                                Ok(Some(m)) => Ev::Msg(m.to_vec()),
                                Err(e) => conv_nb_eh(Err(e)),
                            },
                            (false, false) => conv_nb_eh(reader.read_nb::<DecodedBytes>()),
                            (true, true) => match reader.next::<DecodedBytes>() {
                                None => Ev::End,
                                Some(r) => conv_blocking_eh(r),
                            },
                            (true, false) => conv_blocking_eh(reader.read::<DecodedBytes>()),
                        };
                        if beyond.get() {
                            // the call ran past the end of the script: its would-block is the harness's, not a scripted one
                            if ev != Ev::IoWouldBlock(0) {
                                return Err(format!("polling an idle serial source returned {}", ev.short()));
                            }
                            break;
                        }
                        out.push((st.get().1, ev));
                    }
                    Ok(out)
                }};
            }
            if api == 3 {
                // the constructor with the default 8 KiB buffer
                drive_eh!(sml_rs::SmlReader::from_eh_reader(src))
            } else {
                drive_eh!(K::builder().from_eh_reader(src))
            }
        }
    }
}

pub fn run_cfg(fe: Fe, script: &[Step]) -> Result<Vec<(usize, Ev)>, String> {
    match fe.cap {
        None => run_fe::<VecK>(fe, script),
        Some(n) => with_cap!(n, K => run_fe::<K>(fe, script)),
    }
}

fn is_terminal(e: &Ev, fe: Fe) -> bool {
    if fe.poll_next {
        *e == Ev::End
    } else {
        *e == Ev::IoEof(0)
    }
}

pub fn fe_name(fe: Fe) -> String {
    format!(
        "SmlReader<{}>::{}.{}",
        fe.cap.map(|c| format!("ArrayBuf<{c}>")).unwrap_or_else(|| "Vec".into()),
        match fe.api {
            0 | 1 => "from_reader",
            2 | 4 => "from_eh_reader",
            _ => "from_eh_reader(default buffer)",
        },
        match (fe.api, fe.poll_next) {
            (0, true) | (4, true) => "next",
            (0, false) | (4, false) => "read",
            (_, true) => "next_nb",
            (_, false) => "read_nb",
        }
    )
}

fn show_script(script: &[Step]) -> String {
    let mut s = String::new();
    let mut bytes: Vec<u8> = Vec::new();
    for st in script {
        match st {
            Step::Byte(b) => bytes.push(*b),
            other => {
                if !bytes.is_empty() {
                    s.push_str(&hex_short(&bytes, 40));
                    bytes.clear();
                }
                s.push_str(&format!(" <{}> ", step_name(other)));
            }
        }
    }
    if !bytes.is_empty() {
        s.push_str(&hex_short(&bytes, 40));
    }
    s
}

/// The same script through the same reader with another *target type* (`File` or the streaming `Parser` instead of
/// `DecodedBytes`): a transmission becomes a parsed value or a parse error, every other result - decode errors, source
/// errors with their counts, would-block, the end of input - must be the one the `DecodedBytes` run gave, call by call.
fn other_targets<K: BufKind>(fe: Fe, script: &[Step], got: &[(usize, Ev)]) -> Result<(), String> {
    use sml_rs::parser::complete::File;
    use sml_rs::parser::streaming::Parser;
    use sml_rs::ReadParsedError;
    fn conv(e: ReadParsedError<std::io::Error>) -> Ev {
        match e {
            ReadParsedError::ParseErr(_) => Ev::Msg(Vec::new()),
            ReadParsedError::DecodeErr(e) => Ev::Err(e),
            ReadParsedError::IoErr(e, n) => match e.kind() {
                std::io::ErrorKind::UnexpectedEof => Ev::IoEof(n),
                std::io::ErrorKind::WouldBlock => Ev::IoWouldBlock(n),
                k => Ev::IoOther(format!("{:?}", k), n),
            },
        }
    }
    let shape = |e: &Ev| match e {
        Ev::Msg(_) => Ev::Msg(Vec::new()),
        other => other.clone(),
    };
    for target in 0..2u8 {
        let (src, _st) = drive::ScriptReader::new(script.to_vec());
        let mut reader = K::builder().from_reader(src);
        for (k, (_, want)) in got.iter().enumerate() {
            let ev = match (target, fe.poll_next) {
                (0, true) => match reader.next::<File>() {
                    None => Ev::End,
                    Some(Ok(_)) => Ev::Msg(Vec::new()),
                    Some(Err(e)) => conv(e),
                },
                (0, false) => match reader.read::<File>() {
                    Ok(_) => Ev::Msg(Vec::new()),
                    Err(e) => conv(e),
                },
                (_, true) => match reader.next::<Parser>() {
                    None => Ev::End,
                    Some(Ok(_)) => Ev::Msg(Vec::new()),
                    Some(Err(e)) => match e {
                        ReadDecodedError::DecodeErr(e) => Ev::Err(e),
                        ReadDecodedError::IoErr(e, n) => conv(ReadParsedError::IoErr(e, n)),
                    },
                },
                (_, false) => match reader.read::<Parser>() {
                    Ok(_) => Ev::Msg(Vec::new()),
                    Err(ReadDecodedError::DecodeErr(e)) => Ev::Err(e),
                    Err(ReadDecodedError::IoErr(e, n)) => conv(ReadParsedError::IoErr(e, n)),
                },
            };
            if ev != shape(want) {
                return Err(format!(
                    "result {} through the target type {} is {}, through DecodedBytes it is {}",
                    k + 1,
                    if target == 0 { "File" } else { "Parser" },
                    ev.short(),
                    want.short()
                ));
            }
        }
    }
    Ok(())
}

pub fn eval_input(i: &Input, obs: &mut Obs) -> Result<(), Fail> {
    let fe = i.fe;
    let who = fe_name(fe);
    let script = build_script(&i.stream, &i.faults);
    let eh = fe.api >= 2;
    let cap_fail = |m: String| Fail::new("reader-step-cap", format!("{who}: {m}\nscript = {}", show_script(&script)));
    let got = run_cfg(fe, &script).map_err(cap_fail)?;
    let ctx = |msg: String| format!("{who}: {msg}\nresults = {}\nscript  = {}", drive::show_pos(&got), show_script(&script));
    if fe.api == 0 {
        // the counts and the end of input must not depend on what the caller asks the reader to produce
        let r = match fe.cap {
            None => other_targets::<VecK>(fe, &script, &got),
            Some(n) => with_cap!(n, K => other_targets::<K>(fe, &script, &got)),
        };
        ensure!(r.is_ok(), "target-type-changes-results", "{}", ctx(r.unwrap_err()));
        obs.class("other-target-types:compared");
    }

    // ---- (1) soft faults are transparent -------------------------------------------------
    let n_wb_script = script.iter().filter(|s| matches!(s, Step::WouldBlock) || (eh && matches!(s, Step::Interrupted))).count();
    let n_wb_got = got.iter().filter(|e| matches!(e.1, Ev::IoWouldBlock(_))).count();
    for (_, e) in &got {
        if let Ev::IoWouldBlock(n) = e {
            ensure!(*n == 0, "would-block-discards-bytes", "{}", ctx(format!("a would-block surfaced with {} discarded bytes", n)));
        }
        if let Ev::IoOther(k, _) = e {
            ensure!(k != "Interrupted", "interrupted-surfaces", "{}", ctx("an Interrupted condition surfaced as an error".into()));
            ensure!(k != "WouldBlock-wrapped-in-Other", "would-block-not-nb", "{}", ctx("a would-block was not reported as nb::Error::WouldBlock".into()));
        }
    }
    ensure!(n_wb_got == n_wb_script, "would-block-count", "{}", ctx(format!("{} would-block conditions were scripted, {} surfaced", n_wb_script, n_wb_got)));
    // same script without the soft faults
    let hard_only: Vec<Step> = script.iter().copied().filter(|s| !matches!(s, Step::WouldBlock | Step::Interrupted)).collect();
    let base = run_cfg(fe, &hard_only).map_err(|m| Fail::new("reader-step-cap", format!("{who}: {m}")))?;
    let got_wo: Vec<&(usize, Ev)> = got.iter().filter(|e| !matches!(e.1, Ev::IoWouldBlock(_))).collect();
    ensure!(
        got_wo.len() == base.len() && got_wo.iter().zip(base.iter()).all(|(a, b)| **a == *b),
        "soft-fault-changes-results",
        "{}",
        ctx(format!("dropping the would-block results does not give the results of the same bytes without would-block / interrupted conditions: {}", drive::show_pos(&base)))
    );

    // ---- (2) an `Other` error costs exactly the unreported bytes, then a fresh reader -----
    // split the hard-only script at its first Other
    if let Some(k) = hard_only.iter().position(|s| matches!(s, Step::Other(_))) {
        let left = &hard_only[..k];
        let right = &hard_only[k + 1..];
        let kind = match hard_only[k] {
            Step::Other(x) => drive::other_kind_name(x),
            _ => unreachable!(),
        };
        let delivered_left = left.iter().filter(|s| matches!(s, Step::Byte(_))).count();
        let mut expect: Vec<(usize, Ev)> = Vec::new();
        let l = run_cfg(fe, left).map_err(|m| Fail::new("reader-step-cap", format!("{who}: {m}")))?;
        let mut n_pending = 0usize;
        if eh {
            // no end of input in embedded-hal: the pending count comes from the accountant below
            expect.extend(l.iter().cloned());
            n_pending = usize::MAX;
        } else {
            let mut l = l;
            // strip the terminal report(s): [IoEof(n), terminal] or [terminal]
            match l.pop() {
                Some((_, e)) if is_terminal(&e, fe) => {}
                other => return Err(Fail::new("reader-end", ctx(format!("reader over the bytes before the error did not end properly: {:?}", other.map(|e| e.1.short()))))),
            }
            if let Some((_, Ev::IoEof(n))) = l.last() {
                n_pending = *n;
                l.pop();
            }
            expect.extend(l);
        }
        let r = run_cfg(fe, right).map_err(|m| Fail::new("reader-step-cap", format!("{who}: {m}")))?;
        // compare: prefix, the error item, then the fresh reader's results (positions shifted)
        let np = expect.len();
        let ok_prefix = base.len() >= np + 1 && base[..np] == expect[..];
        ensure!(ok_prefix, "results-before-error-differ", "{}", ctx(format!("the results before the {} error differ from those of a reader over the same bytes without it: {}", kind, drive::show_pos(&expect))));
        match &base[np] {
            (p, Ev::IoOther(kk, n)) => {
                ensure!(*kk == kind, "wrong-error-kind", "{}", ctx(format!("expected IoErr({kind}, _), got IoErr({kk}, _)")));
                ensure!(*p == delivered_left, "error-position", "{}", ctx("error reported at the wrong position".into()));
                if n_pending != usize::MAX {
                    ensure!(*n == n_pending, "error-discards-wrong-count", "{}", ctx(format!("the {kind} error reports {n} discarded bytes; a reader whose input ends at the same point reports {n_pending} pending bytes")));
                }
            }
            (_, other) => return Err(Fail::new("error-not-reported", ctx(format!("expected IoErr({kind}, n) as result #{np}, got {}", other.short())))),
        }
        let rest: Vec<(usize, Ev)> = base[np + 1..].iter().map(|(p, e)| (p - delivered_left, e.clone())).collect();
        ensure!(rest == r, "not-fresh-after-error", "{}", ctx(format!("after the {} error the reader does not behave like a fresh reader on the remaining input: fresh reader yields {}", kind, drive::show_pos(&r))));
        obs.class("fault:other");
    }

    // ---- (3) + R4: absolute byte accounting ----------------------------------------------
    let mut t = Tiling::new(&i.stream);
    for (c, e) in &got {
        let r = match e {
            Ev::Msg(m) => t.frame(*c, m),
            Ev::Err(DecodeErr::DiscardedBytes(n)) => t.discarded(*c, *n),
            Ev::Err(DecodeErr::InvalidEsc(_)) => t.rejected(*c, "InvalidEsc"),
            Ev::Err(DecodeErr::OutOfMemory) => t.rejected(*c, "OutOfMemory"),
            Ev::Err(DecodeErr::InvalidMessage { .. }) => t.rejected(*c, "InvalidMessage"),
            Ev::IoEof(n) => t.end(*c, *n, "IoErr(Eof, n)"),
            Ev::IoOther(_, n) => t.end(*c, *n, "IoErr(Other, n)"),
            Ev::IoWouldBlock(_) => Ok(()),
            Ev::End => t.end(*c, 0, "next() == None"),
        };
        r.map_err(|m| Fail::new("miscounted-bytes", ctx(m)))?;
    }
    if !eh {
        ensure!(t.boundary == i.stream.len(), "end-of-input-with-pending-data", "{}", ctx(format!("the end of input was signalled while {} bytes are unaccounted", i.stream.len() - t.boundary)));
    }

    // ---- classification --------------------------------------------------------------------
    let mut inside = false;
    for (p, s) in &i.faults {
        let kind = match s {
            Step::WouldBlock => "wouldblock",
            Step::Interrupted => "interrupted",
            _ => "other",
        };
        let phase = phase_of(&i.stream, *p);
        if phase != "idle" && phase != "noise" {
            inside = true;
        }
        obs.class(format!("fault:{}@{}", kind, phase));
    }
    obs.class(format!("api:{}", match fe.api {
        0 => "io-blocking",
        1 => "io-nb",
        2 => "eh-nb",
        3 => "eh-nb-default-buffer",
        _ => "eh-blocking",
    }));
    obs.nontrivial_if(inside);
    Ok(())
}

/// Decoder phase right before byte `p` of the stream, from a small reference scanner written
/// from the transport description (not from the implementation); used for classification only.
pub fn phase_of(stream: &[u8], p: usize) -> &'static str {
    use crate::refmodel::transport::START;
    #[derive(Clone, Copy)]
    enum S {
        Idle { matched: usize, fresh: bool },
        Normal { first: bool, zero: bool },
        Run(usize),
        Payload(usize, [u8; 4]),
    }
    let mut st = S::Idle { matched: 0, fresh: true };
    for &b in &stream[..p.min(stream.len())] {
        st = match st {
            S::Idle { matched, .. } => {
                let m = if b == START[matched] {
                    matched + 1
                } else if b == 0x1b {
                    if matched == 4 {
                        4
                    } else {
                        1
                    }
                } else {
                    0
                };
                if m == 8 {
                    S::Normal { first: true, zero: false }
                } else {
                    S::Idle { matched: m, fresh: false }
                }
            }
            S::Normal { .. } => {
                if b == 0x1b {
                    S::Run(1)
                } else {
                    S::Normal { first: false, zero: b == 0 }
                }
            }
            S::Run(k) => {
                if b == 0x1b {
                    if k == 3 {
                        S::Payload(0, [0; 4])
                    } else {
                        S::Run(k + 1)
                    }
                } else {
                    S::Normal { first: false, zero: b == 0 }
                }
            }
            S::Payload(k, mut pl) => {
                pl[k] = b;
                if k < 3 {
                    S::Payload(k + 1, pl)
                } else if pl == [0x1b; 4] || pl == [1; 4] {
                    S::Normal { first: pl == [1; 4], zero: false }
                } else {
                    S::Idle { matched: 0, fresh: true }
                }
            }
        };
    }
    match st {
        S::Idle { matched: 0, fresh: true } => "idle",
        S::Idle { matched: 0, .. } => "noise",
        S::Idle { .. } => "inside-start-seq",
        S::Normal { first: true, .. } => "right-after-start-seq",
        S::Normal { zero: true, .. } => "zeros-withheld",
        S::Normal { .. } => "in-data",
        S::Run(_) => "inside-1b-run",
        S::Payload(..) => "inside-esc-payload",
    }
}

impl Prop for C11 {
    const ID: &'static str = "C11";
    const RULE: &'static str = "streams of valid frames, noise and broken frames (G2 tokens) x fault scripts (G6: finite sequences of WouldBlock / Interrupted / Other(kind) at arbitrary inter-byte positions, with a forced fault strictly inside a frame in most cases) through SmlReader::from_reader (read, next, read_nb, next_nb) and from_eh_reader (read_nb, next_nb, and the blocking read / next, where the source's would-block is an I/O error of kind would-block) with Vec or ArrayBuf buffers; every single-fault placement on small streams is enumerated. Oracle (metamorphic, against the same front-end without the faults, plus the tiling accountant R4): (1) dropping the WouldBlock results gives exactly the fault-free results, every scripted WouldBlock surfaces exactly once with count 0 (as nb::Error::WouldBlock in the _nb API), Interrupted never surfaces; (2) an Other error after p delivered bytes: results = results of a reader whose input ends at p, with its final IoErr(Eof,n)/None replaced by IoErr(Other,n), followed by the results of a fresh reader on the remaining script; n is also checked by R4; (3) at the end of input nothing is unaccounted, and the end keeps being reported on further calls. Non-trivial: at least one fault strictly inside a frame (phase derived from the reference frame structure). Distinct = distinct inputs.";
    type Case = Case;
    type Input = Input;

    fn budget(tier: Tier) -> u64 {
        tier.pick(1_000_000, 8_000_000)
    }

    fn strategy(_tier: Tier) -> BoxedStrategy<Case> {
        let toks = (proptest::collection::vec(stok(false), 0..3), moderate_payload(), proptest::collection::vec(stok(false), 0..4)).prop_map(|(mut a, p, b)| {
            a.push(STok::Frame(p));
            a.extend(b);
            a
        });
        let inside = prop::option::weighted(0.8, (any::<u16>(), prop_oneof![3 => Just(Step::WouldBlock), 1 => Just(Step::Interrupted), 3 => (0u8..6).prop_map(Step::Other)]));
        (toks, fault_specs(4, 3), 0u8..5, any::<bool>(), prop::option::weighted(0.4, any::<u16>()), inside)
            .prop_map(|(toks, faults, api, poll_next, cap, inside)| Case { toks, faults, api, poll_next, cap, inside })
            .boxed()
    }

    fn lower(c: &Case) -> Input {
        let stream = lower_stream(&c.toks);
        let mut faults = concretise(&c.faults, stream.len());
        if let Some((x, step)) = &c.inside {
            // strictly inside the first valid frame of the stream (token structure is known)
            let mut off = 0usize;
            for t in &c.toks {
                let l = lower_stream(std::slice::from_ref(t)).len();
                if let STok::Frame(_) = t {
                    if l >= 2 {
                        faults.push((off + 1 + pick(*x, l - 1), *step));
                    }
                    break;
                }
                off += l;
            }
            faults.sort_by_key(|f| f.0);
        }
        let cap = c.cap.map(|x| CAPS[8 + pick(x, 32)]);
        Input { stream, faults, fe: Fe { api: c.api, poll_next: c.poll_next, cap } }
    }

    fn eval(i: &Input, obs: &mut Obs) -> Result<(), Fail> {
        eval_input(i, obs)
    }

    fn to_kv(i: &Input) -> Kv {
        let mut kv = Kv::new();
        kv.put_b("stream", &i.stream).put_u("api", i.fe.api as u64).put_u("poll_next", i.fe.poll_next as u64);
        kv.put("cap", i.fe.cap.map(|c| c.to_string()).unwrap_or_else(|| "none".into()));
        faults_to_kv(&mut kv, &i.faults);
        kv
    }

    fn from_kv(kv: &Kv) -> Result<Input, String> {
        let cap = match kv.get("cap")? {
            "none" => None,
            s => Some(s.parse::<usize>().map_err(|e| e.to_string())?),
        };
        if let Some(c) = cap {
            if !CAPS.contains(&c) {
                return Err(format!("capacity {c} not in dispatch set"));
            }
        }
        let api = kv.get_u("api")? as u8;
        if api > 4 {
            return Err("api out of range".into());
        }
        Ok(Input { stream: kv.get_b("stream")?, faults: faults_from_kv(kv)?, fe: Fe { api, poll_next: kv.get_u("poll_next")? != 0, cap } })
    }

    fn exhaustive_desc(_tier: Tier) -> String {
        "for 12 small streams (single frames with escape / zero / 0x1b tails, frame + noise + frame, broken frame + frame): one fault of each kind {WouldBlock, Interrupted, Other} at every inter-byte position x 9 front-end configurations".into()
    }

    fn exhaustive(_tier: Tier, shard: usize, nshards: usize, f: &mut dyn FnMut(&Input) -> bool) {
        let ps = crate::props::c08::small_payload_set();
        let mut streams: Vec<Vec<u8>> = Vec::new();
        for k in [1usize, 5, 9, 11, 13, 16, 19, 21] {
            streams.push(ref_frame(&ps[k]));
        }
        let mut s = ref_frame(&ps[2]);
        s.extend_from_slice(&[0xaa, 0x1b, 0x1b]);
        s.extend_from_slice(&ref_frame(&ps[6]));
        streams.push(s);
        let mut s = ref_frame(&ps[3]);
        let l = s.len();
        s[l - 1] ^= 1;
        s.extend_from_slice(&ref_frame(&ps[15]));
        streams.push(s);
        let mut s = vec![0x1b, 0x1b, 0x1b, 0x1b, 0x01];
        s.extend_from_slice(&ref_frame(&ps[17]));
        s.extend_from_slice(&[1, 2, 3]);
        streams.push(s);
        let mut s = ref_frame(&ps[20])[..14].to_vec();
        s.extend_from_slice(&ref_frame(&ps[4]));
        streams.push(s);
        let mut g = 0usize;
        for s in &streams {
            for p in 0..=s.len() {
                for step in [Step::WouldBlock, Step::Interrupted, Step::Other(1)] {
                    for (api, poll_next, cap) in [(0u8, true, None), (0, false, Some(64usize)), (1, true, None), (1, false, None), (2, true, Some(64)), (2, false, None), (3, true, None), (4, true, None), (4, false, Some(64))] {
                        if g % nshards == shard && !f(&Input { stream: s.clone(), faults: vec![(p, step)], fe: Fe { api, poll_next, cap } }) {
                            return;
                        }
                        g += 1;
                    }
                }
            }
        }
    }
}
