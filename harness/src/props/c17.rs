//! C17 - every input byte is accounted for exactly once.

use crate::drive::{self, BufKind, Ev, Poll, Step, VecK};
use crate::engine::caps::{pick, CAPS};
use crate::engine::{Fail, Obs, Prop, Tier};
use crate::gen::faults::*;
use crate::gen::stream::*;
use crate::refmodel::tiling::Tiling;
use crate::util::{hex_short, Kv};
use crate::with_cap;
use proptest::prelude::*;
use sml_rs::transport::{DecodeErr, Decoder};

pub struct C17;

#[derive(Debug, Clone)]
pub struct Case {
    pub toks: Vec<STok>,
    pub cap: u16,
    pub use_reset: bool,
    pub faults: Vec<FaultSpec>,
    pub poll_next: bool,
}

#[derive(Debug, Clone)]
pub struct Input {
    pub stream: Vec<u8>,
    pub cap: usize,
    pub use_reset: bool,
    pub faults: Faults,
    pub poll_next: bool,
}

fn account(t: &mut Tiling, c: usize, e: &Ev) -> Result<(), String> {
    match e {
        Ev::Msg(m) => t.frame(c, m),
        Ev::Err(DecodeErr::DiscardedBytes(n)) => t.discarded(c, *n),
        Ev::Err(DecodeErr::InvalidEsc(_)) => t.rejected(c, "InvalidEsc"),
        Ev::Err(DecodeErr::OutOfMemory) => t.rejected(c, "OutOfMemory"),
        Ev::Err(DecodeErr::InvalidMessage { .. }) => t.rejected(c, "InvalidMessage"),
        Ev::IoEof(n) => t.end(c, *n, "IoErr(Eof, n)"),
        Ev::IoOther(_, n) => t.end(c, *n, "IoErr(Other, n)"),
        Ev::IoWouldBlock(n) => {
            if *n != 0 {
                Err(format!("IoErr(WouldBlock, {n}) carries a non-zero discarded count"))
            } else {
                Ok(())
            }
        }
        Ev::End => t.end(c, 0, "next() == None"),
    }
}

fn fail(sig: &str, who: &str, stream: &[u8], msg: String, evs: &[(usize, Ev)]) -> Fail {
    Fail::new(sig, format!("{who}: {msg}\nevents = {}\nstream ({} bytes) = {}", drive::show_pos(evs), stream.len(), hex_short(stream, 120)))
}

fn push_part<K: BufKind>(stream: &[u8], use_reset: bool, obs: &mut Obs) -> Result<(), Fail> {
    let who = format!("Decoder<{}<{}>>", K::NAME, K::CAP);
    let mut dec = Decoder::<K::B>::new();
    let mut evs = Vec::new();
    drive::push_all(&mut dec, stream, 0, &mut evs);
    let mut t = Tiling::new(stream);
    for (c, e) in &evs {
        account(&mut t, *c, e).map_err(|m| fail("miscounted-bytes", &who, stream, m, &evs))?;
    }
    let c = stream.len();
    if use_reset {
        let n = dec.reset();
        t.end(c, n, "reset()").map_err(|m| fail("miscounted-bytes-at-end", &who, stream, m, &evs))?;
    } else {
        match dec.finalize() {
            None => t.end(c, 0, "finalize() == None"),
            Some(DecodeErr::DiscardedBytes(0)) => Err("finalize() returned DiscardedBytes(0)".to_string()),
            Some(DecodeErr::DiscardedBytes(n)) => t.end(c, n, "finalize()"),
            Some(e) => Err(format!("finalize() returned {:?}", e)),
        }
        .map_err(|m| fail("miscounted-bytes-at-end", &who, stream, m, &evs))?;
    }
    // tiling is complete by construction: boundary == |stream|
    obs.count("segments", t.segs.len() as u64);
    if t.kinds() >= 2 {
        obs.class("push:>=2-segment-kinds");
    }
    for (k, s, e) in &t.segs {
        if e - s >= 65536 {
            obs.class(format!("segment>=65536:{:?}", k));
        }
    }
    obs.nontrivial_if(t.kinds() >= 2 || t.segs.iter().any(|(_, s, e)| e - s >= 65536));
    Ok(())
}

fn reader_part(stream: &[u8], faults: &Faults, poll: Poll, obs: &mut Obs) -> Result<(), Fail> {
    let who = format!("SmlReader<Vec>::from_reader.{}", if poll == Poll::Next { "next" } else { "read" });
    let script = build_script(stream, faults);
    let evs = drive::reader_io::<VecK>(script, poll, 1)
        .map_err(|m| Fail::new("reader-step-cap", format!("{who}: {m}\nstream = {}", hex_short(stream, 120))))?;
    let mut t = Tiling::new(stream);
    for (c, e) in &evs {
        account(&mut t, *c, e).map_err(|m| fail("miscounted-bytes-reader", &who, stream, m, &evs))?;
    }
    if t.boundary != stream.len() {
        return Err(fail("miscounted-bytes-reader", &who, stream, format!("after the end of input only {} of {} bytes are accounted for", t.boundary, stream.len()), &evs));
    }
    // the same script through one of the other reader front-ends (non-blocking API over io::Read, the
    // embedded-hal source through the non-blocking and through the blocking API): every count attached to
    // an error must again extend the tiling exactly. A serial source has no end of input, so there the
    // bytes still pending when the script runs out stay unreported (not an error).
    let api = [1u8, 2, 4][(stream.len() + faults.len()) % 3];
    let fe = crate::props::c11::Fe { api, poll_next: poll == Poll::Next, cap: None };
    let who2 = crate::props::c11::fe_name(fe);
    let script2 = build_script(stream, faults);
    let evs2 = crate::props::c11::run_cfg(fe, &script2).map_err(|m| Fail::new("reader-step-cap", format!("{who2}: {m}\nstream = {}", hex_short(stream, 120))))?;
    let mut t2 = Tiling::new(stream);
    for (c, e) in &evs2 {
        account(&mut t2, *c, e).map_err(|m| fail("miscounted-bytes-reader", &who2, stream, m, &evs2))?;
    }
    if api == 1 && t2.boundary != stream.len() {
        return Err(fail("miscounted-bytes-reader", &who2, stream, format!("after the end of input only {} of {} bytes are accounted for", t2.boundary, stream.len()), &evs2));
    }
    obs.class(format!("reader-front-end:{}", ["", "io-nb", "eh-nb", "", "eh-blocking"][api as usize]));
    let n_other = faults.iter().filter(|f| matches!(f.1, Step::Other(_))).count();
    if n_other > 0 {
        obs.class("reader:with-other-fault");
    }
    obs.nontrivial_if(t.kinds() >= 2);
    Ok(())
}

pub fn eval_input(i: &Input, obs: &mut Obs) -> Result<(), Fail> {
    push_part::<VecK>(&i.stream, i.use_reset, obs)?;
    with_cap!(i.cap, K => push_part::<K>(&i.stream, i.use_reset, obs))?;
    reader_part(&i.stream, &i.faults, if i.poll_next { Poll::Next } else { Poll::Read }, obs)?;
    obs.class(if i.use_reset { "end:reset" } else { "end:finalize" });
    if i.stream.len() >= 65536 {
        obs.class("stream:>=65536");
    }
    Ok(())
}

impl Prop for C17 {
    const ID: &'static str = "C17";
    const RULE: &'static str = "G2 token streams mixing every event kind, noise runs with lengths dense around k*65536 +- 3 and up to 140k (thorough 400k), through the push decoder (Vec and a random ArrayBuf<N>, ended by finalize or reset) and through SmlReader over a scripted io::Read with WouldBlock/Interrupted/Other faults and end of input at arbitrary positions; oracle: tiling accountant R4 - every DiscardedBytes(n) is raised at a completed start sequence and n equals the bytes since the previous boundary, every Ok(m) covers exactly its canonical frame, every rejected frame begins at a start sequence, and finalize / reset / IoErr(_, n) report exactly the unaccounted rest. Non-trivial: >= 2 segment kinds, or a segment >= 65536 bytes. Distinct = distinct inputs.";
    type Case = Case;
    type Input = Input;

    fn budget(tier: Tier) -> u64 {
        tier.pick(800_000, 5_000_000)
    }

    fn strategy(tier: Tier) -> BoxedStrategy<Case> {
        let big = prop::bool::weighted(tier.pick(0.05, 0.08));
        (big, any::<u16>(), any::<bool>(), fault_specs(4, 3), any::<bool>())
            .prop_flat_map(|(big, cap, use_reset, faults, poll_next)| (stream(10, big), Just(cap), Just(use_reset), Just(faults), Just(poll_next)))
            .prop_map(|(toks, cap, use_reset, faults, poll_next)| Case { toks, cap, use_reset, faults, poll_next })
            .boxed()
    }

    fn lower(c: &Case) -> Input {
        let stream = lower_stream(&c.toks);
        let fitting: Vec<usize> = CAPS.iter().copied().filter(|n| *n >= stream.len()).collect();
        let cap = if c.cap % 3 == 0 || fitting.is_empty() { CAPS[pick(c.cap, 36)] } else { fitting[0] };
        let faults = concretise(&c.faults, stream.len());
        Input { stream, cap, use_reset: c.use_reset, faults, poll_next: c.poll_next }
    }

    fn eval(i: &Input, obs: &mut Obs) -> Result<(), Fail> {
        eval_input(i, obs)
    }

    fn to_kv(i: &Input) -> Kv {
        let mut kv = Kv::new();
        kv.put_b("stream", &i.stream).put_u("cap", i.cap as u64).put_u("use_reset", i.use_reset as u64).put_u("poll_next", i.poll_next as u64);
        faults_to_kv(&mut kv, &i.faults);
        kv
    }

    fn from_kv(kv: &Kv) -> Result<Input, String> {
        let cap = kv.get_u("cap")? as usize;
        if !CAPS.contains(&cap) {
            return Err(format!("capacity {cap} not in dispatch set"));
        }
        Ok(Input { stream: kv.get_b("stream")?, cap, use_reset: kv.get_u("use_reset")? != 0, faults: faults_from_kv(kv)?, poll_next: kv.get_u("poll_next")? != 0 })
    }

    fn exhaustive_desc(tier: Tier) -> String {
        let l = tier.pick(5, 6);
        format!("all token sequences of length 1..={} over the 13-token alphabet of C02 ({} streams), alternating finalize / reset, capacities 8 and 64, one Other fault at a position derived from the index", l, small_seq_total(l))
    }

    fn exhaustive(tier: Tier, shard: usize, nshards: usize, f: &mut dyn FnMut(&Input) -> bool) {
        let l = tier.pick(5, 6);
        let alpha = small_alphabet();
        let total = small_seq_total(l);
        let mut idx = shard as u64;
        while idx < total {
            let stream = small_seq_bytes(&alpha, l, idx);
            let faults = if idx % 3 == 0 { vec![((idx as usize / 3) % (stream.len() + 1), Step::Other(0))] } else { vec![] };
            if !f(&Input { stream, cap: if idx % 2 == 0 { 8 } else { 64 }, use_reset: idx % 4 < 2, faults, poll_next: idx % 8 < 4 }) {
                return;
            }
            idx += nshards as u64;
        }
    }
}
