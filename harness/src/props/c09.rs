//! C09 - allocating and streaming parser agree on every input.

use crate::engine::{Fail, Obs, Prop, Tier};
use crate::ensure;
use crate::gen::mutate::PMut;
use crate::gen::pinput::*;
use crate::gen::smlfile::cfile_typical;
use crate::props::parsers::*;
use crate::refmodel::sml::*;
use crate::util::{hex_short, Kv};
use proptest::prelude::*;

pub struct C09;

pub fn eval_bytes(x: &[u8], how: &str, obs: &mut Obs) -> Result<(), Fail> {
    let c = sml_rs::parser::complete::parse(x);
    let s = run_streaming(x, 0);
    ensure!(!s.cap_exceeded, "streaming-endless", "streaming parser did not finish within {} calls; input = {}", x.len() + 2, hex_short(x, 160));
    if let Some(v) = shape_violation(&s.events, s.err.is_none()) {
        return Err(Fail::new("event-shape", format!("streaming parser: {v}\nevents = {}\ninput ({}) = {}", show_events(&s.events), how, hex_short(x, 200))));
    }
    match (&c, &s.err) {
        (Ok(file), None) => {
            let rf = crate::refmodel::conv::rfile_of(file);
            let re = assemble(&s.events);
            ensure!(re.as_ref() == Some(&rf), "parsers-disagree-on-value", "both parsers succeed but the reassembled events differ from the File\n  events: {}\n  file: {:?}\ninput ({}) = {}", show_events(&s.events), rf, how, hex_short(x, 200));
            obs.class("both:ok");
        }
        (Err(e1), Some(e2)) => {
            ensure!(kind_of(e1) == kind_of(e2), format!("parsers-disagree-on-error-kind:{}-vs-{}", kind_label(e1), kind_label(e2)), "complete::parse fails with {:?}, the streaming parser (after {} events) with {:?}\ninput ({}) = {}", e1, s.events.len(), e2, how, hex_short(x, 200));
            obs.class(format!("both:err:{}", kind_label(e1)));
            obs.class(format!("events-before-error:{}", s.events.len().min(4)));
        }
        (Ok(_), Some(e2)) => {
            return Err(Fail::new("only-streaming-fails", format!("complete::parse succeeds but the streaming parser fails with {:?} after {}\ninput ({}) = {}", e2, show_events(&s.events), how, hex_short(x, 200))));
        }
        (Err(e1), None) => {
            return Err(Fail::new("only-complete-fails", format!("complete::parse fails with {:?} but the streaming parser ends without an error after {}\ninput ({}) = {}", e1, show_events(&s.events), how, hex_short(x, 200))));
        }
    }
    let has_entry = s.events.iter().any(|e| matches!(e, REvent::Entry(_)));
    obs.nontrivial_if(has_entry || (s.err.is_some() && !s.events.is_empty()));
    Ok(())
}

impl Prop for C09 {
    const ID: &'static str = "C09";
    const RULE: &'static str = "the inputs of C04/C06 (valid G4 files, G5 mutations of G4 files and of real meter payloads with / without checksum fix-up incl. lying TLF lengths up to and beyond 2^32, truncations, random bytes). Oracle (differential between the two implementations): both succeed => events reassembled == File; both fail => same ParseError variant (and same inner TlfParseError; the diagnostic type-name string in TlfMismatch is ignored); exactly one fails => violation; plus the event-shape invariant (announce n, exactly n value events, one end event, no message start in between). Non-trivial: the input has a list response with >= 1 value event, or the first error occurs after >= 1 event. Distinct = distinct byte strings.";
    type Case = PCase;
    type Input = PInput;

    fn budget(tier: Tier) -> u64 {
        tier.pick(200_000, 5_000_000)
    }

    fn strategy(tier: Tier) -> BoxedStrategy<PCase> {
        // double faults inside one message: the two parsers run the checksum, end-marker and
        // end-of-input checks in their own order, so only a pair of faults can tell them apart
        let second = prop_oneof![
            (1u8..=255).prop_map(|v| (0u8, v)),
            (1u8..4).prop_map(|b| (1u8, b)),
            (0u8..8).prop_map(|t| (2u8, t)),
        ];
        let double = (cfile_typical(), any::<u16>(), 1u8..=255, second, any::<bool>()).prop_map(|(file, i, v, (kind, x), crc_first)| {
            let a = PMut::CrcByte(i, v);
            let b = match kind {
                0 => PMut::EndMarker(i, x),
                1 => PMut::TruncateAtMsgEnd(i, x),
                _ => PMut::TypeNibble(i, x),
            };
            PCase::Mutated { file, muts: if crc_first { vec![a, b] } else { vec![b, a] }, fix: false }
        });
        prop_oneof![1 => double, 5 => pcase(tier == Tier::Thorough, (3, 10, 3, 1))].boxed()
    }

    fn lower(c: &PCase) -> PInput {
        lower(c)
    }

    fn eval(i: &PInput, obs: &mut Obs) -> Result<(), Fail> {
        obs.class(i.origin_class());
        eval_bytes(&i.bytes, &i.how, obs)
    }

    fn to_kv(i: &PInput) -> Kv {
        i.to_kv()
    }

    fn from_kv(kv: &Kv) -> Result<PInput, String> {
        PInput::from_kv(kv)
    }

    fn exhaustive_desc(_tier: Tier) -> String {
        format!("the complete single-mutation neighbourhood of a showcase file and 6 real meter payloads under the grammar-level catalogue of {} mutations at every node, and the complete single-byte neighbourhood of every type-length field, checksums recomputed", crate::gen::tree::catalogue().len())
    }

    fn exhaustive(_tier: Tier, shard: usize, nshards: usize, f: &mut dyn FnMut(&PInput) -> bool) {
        crate::gen::tree::neighbourhood(shard, nshards, &mut |bytes, how| f(&PInput { bytes, how }));
        crate::gen::tree::tlf_byte_neighbourhood(shard, nshards, &mut |bytes, how| f(&PInput { bytes, how }));
    }
}
