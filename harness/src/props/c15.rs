//! C15 - all decoding front-ends report the same results for the same bytes.

use crate::drive::{self, VecK};
use crate::engine::caps::{cap_at_least, CAPS};
use crate::engine::{Fail, Obs, Prop, Tier};
use crate::gen::stream::*;
use crate::util::{hex_short, Kv};
use crate::{ensure, with_cap};
use proptest::prelude::*;

pub struct C15;

#[derive(Debug, Clone)]
pub struct Case {
    pub toks: Vec<STok>,
    pub extra: usize,
    /// use the next larger capacity instead of the smallest fitting one
    pub bigger: bool,
}

#[derive(Debug, Clone)]
pub struct Input {
    pub stream: Vec<u8>,
    pub cap: usize,
    pub extra: usize,
}

pub fn eval_stream(stream: &[u8], cap: usize, extra: usize, obs: &mut Obs) -> Result<(), Fail> {
    let mk = |(fe, m): (String, String)| {
        Fail::new(
            format!("frontends-disagree:{}", fe.split(['.', '<']).next().unwrap_or("")),
            format!("{m}\nstream ({} bytes) = {}", stream.len(), hex_short(stream, 120)),
        )
    };
    let a = drive::agreement::<VecK>(stream, extra, stream.len() <= 8192).map_err(mk)?;
    let b = with_cap!(cap, K => drive::agreement::<K>(stream, extra, false)).map_err(mk)?;
    ensure!(
        a.events == b.events && a.leftover == b.leftover,
        "buffer-kind-changes-result",
        "Vec-backed front-ends report {} (leftover {}), ArrayBuf<{}>-backed ones report {} (leftover {}) although the capacity covers the whole stream\nstream ({} bytes) = {}",
        drive::show_pos(&a.events),
        a.leftover,
        cap,
        drive::show_pos(&b.events),
        b.leftover,
        stream.len(),
        hex_short(stream, 120)
    );
    obs.count("frontend-runs", (a.frontends + b.frontends) as u64);
    obs.class(format!("events:{}", a.events.len().min(6)));
    obs.class(if a.leftover > 0 { "end:leftover" } else { "end:clean" });
    obs.class(crate::gen::payload::len_class(stream.len()).replace("len:", "stream-len:"));
    if a.leftover >= 65536 || stream.len() >= 65536 {
        obs.class("stream:>=65536");
    }
    obs.nontrivial_if(a.events.len() >= 2 || a.leftover > 0);
    Ok(())
}

impl Prop for C15 {
    const ID: &'static str = "C15";
    const RULE: &'static str = "G2 token streams of every kind (valid, mutated, CRC-recomputed, ending mid-frame / mid-noise / on a partial start sequence, noise runs up to 140k with lengths dense around k*65536) through {Decoder+finalize, decode, decode_streaming, SmlReader x {slice, iterator, io::Read} x {next, read}} x {Vec, ArrayBuf<N>=smallest capacity >= |s| (or the next one), default 8 KiB buffer when |s| <= 8192}; oracle: identical sequences of payloads and decode errors (and identical consumed-byte positions where observable) after normalising the end of input (trailing DiscardedBytes(n) from finalize = IoErr(Eof,n) then None / IoErr(Eof,0)). Non-trivial: the stream yields >= 2 events or ends with leftover bytes. Distinct = distinct (stream, capacity, extra calls).";
    type Case = Case;
    type Input = Input;

    fn budget(tier: Tier) -> u64 {
        tier.pick(400_000, 3_000_000)
    }

    fn strategy(tier: Tier) -> BoxedStrategy<Case> {
        let big = prop::bool::weighted(tier.pick(0.03, 0.05));
        (big, 0usize..4, any::<bool>())
            .prop_flat_map(|(big, extra, bigger)| (stream(10, big), Just(extra), Just(bigger)))
            .prop_map(|(toks, extra, bigger)| Case { toks, extra, bigger })
            .boxed()
    }

    fn lower(c: &Case) -> Input {
        let mut stream = lower_stream(&c.toks);
        let maxcap = *CAPS.last().unwrap();
        stream.truncate(maxcap);
        let mut cap = cap_at_least(stream.len()).unwrap();
        if c.bigger {
            if let Some(n) = CAPS.iter().copied().find(|n| *n > cap) {
                if n <= 8193 || cap > 8193 {
                    cap = n;
                }
            }
        }
        Input { stream, cap, extra: c.extra }
    }

    fn eval(i: &Input, obs: &mut Obs) -> Result<(), Fail> {
        eval_stream(&i.stream, i.cap, i.extra, obs)
    }

    fn to_kv(i: &Input) -> Kv {
        let mut kv = Kv::new();
        kv.put_b("stream", &i.stream).put_u("cap", i.cap as u64).put_u("extra", i.extra as u64);
        kv
    }

    fn from_kv(kv: &Kv) -> Result<Input, String> {
        let cap = kv.get_u("cap")? as usize;
        let stream = kv.get_b("stream")?;
        if !CAPS.contains(&cap) || cap < stream.len() {
            return Err(format!("capacity {cap} not in dispatch set or smaller than the stream"));
        }
        Ok(Input { stream, cap, extra: kv.get_u("extra")? as usize })
    }

    fn exhaustive_desc(tier: Tier) -> String {
        let l = tier.pick(4, 5);
        format!("all token sequences of length 1..={} over the 13-token alphabet of C02 ({} streams), each with the smallest fitting capacity", l, small_seq_total(l))
    }

    fn exhaustive(tier: Tier, shard: usize, nshards: usize, f: &mut dyn FnMut(&Input) -> bool) {
        let l = tier.pick(4, 5);
        let alpha = small_alphabet();
        let total = small_seq_total(l);
        let mut idx = shard as u64;
        while idx < total {
            let stream = small_seq_bytes(&alpha, l, idx);
            let cap = cap_at_least(stream.len()).unwrap();
            if !f(&Input { stream, cap, extra: 1 }) {
                return;
            }
            idx += nshards as u64;
        }
    }
}
