#![no_main]
libfuzzer_sys::fuzz_target!(|data: &[u8]| {
    smlverif::fuzz::c16(data);
});
