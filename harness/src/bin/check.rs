//! `check <ID> --tier quick|thorough --seed N --profile NAME [--share F] [--no-exhaustive]
//!        [--out frag.json] [--hashes file] [--replay file] [--scale F]`
//! `check union-count <files...>`

use smlverif::engine::{self, Opts, Tier};
use smlverif::props;

fn main() {
    let args: Vec<String> = std::env::args().skip(1).collect();
    if args.is_empty() {
        eprintln!("usage: check <ID> [options] | check union-count <files>");
        std::process::exit(2);
    }
    if args[0] == "union-count" {
        println!("{}", engine::union_count(&args[1..]));
        return;
    }
    let id = args[0].clone();
    let mut opts = Opts {
        tier: Tier::Quick,
        seed: std::env::var("VERIF_SEED").ok().and_then(|s| s.parse().ok()).unwrap_or(1),
        profile: "checked".into(),
        share: 1.0,
        run_exhaustive: true,
        shards: 16,
        out: None,
        hashes_out: None,
        replay_dir: "/verif/replays".into(),
        known_file: "/verif/known_findings.txt".into(),
        replay: None,
        scale: 1.0,
    };
    let mut i = 1;
    while i < args.len() {
        let a = args[i].as_str();
        let mut val = || {
            i += 1;
            args.get(i).cloned().unwrap_or_else(|| {
                eprintln!("missing value for {a}");
                std::process::exit(2)
            })
        };
        match a {
            "--tier" => {
                opts.tier = match val().as_str() {
                    "quick" => Tier::Quick,
                    "thorough" => Tier::Thorough,
                    other => {
                        eprintln!("unknown tier {other}");
                        std::process::exit(2)
                    }
                }
            }
            "--seed" => opts.seed = val().parse().expect("seed"),
            "--profile" => opts.profile = val(),
            "--share" => opts.share = val().parse().expect("share"),
            "--scale" => opts.scale = val().parse().expect("scale"),
            "--shards" => opts.shards = val().parse().expect("shards"),
            "--no-exhaustive" => opts.run_exhaustive = false,
            "--out" => opts.out = Some(val()),
            "--hashes" => opts.hashes_out = Some(val()),
            "--replay" => opts.replay = Some(val()),
            "--replay-dir" => opts.replay_dir = val(),
            "--known" => opts.known_file = val(),
            other => {
                eprintln!("unknown option {other}");
                std::process::exit(2)
            }
        }
        i += 1;
    }
    let code = props::dispatch(&id, &opts);
    std::process::exit(code);
}
