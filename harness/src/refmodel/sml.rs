//! R3: reference model of the supported SML subset.
//!
//! * `C*` types: a *concrete syntax tree* - an abstract SML file together with the encoding
//!   choices (bytes per TLF, encoded integer width, time variant, CRC field width) that
//!   pick one of its valid wire encodings. `write()` turns it into bytes and records spans.
//! * `R*` types: the abstract content (what a parser must return).
//! * `read_events()` / `read_file()`: an independent recursive-descent reader written from
//!   the grammar in DESIGN.md section 3, not from the crate.
//!
//! Nothing in this file calls into sml-rs.

use super::transport::crc16_x25;

// ---------------------------------------------------------------------------------------
// abstract content
// ---------------------------------------------------------------------------------------

#[derive(Debug, Clone, PartialEq, Eq)]
pub enum RValue {
    Bool(bool),
    Bytes(Vec<u8>),
    /// (width class in bytes: 1,2,4,8; value)
    Int(u8, i64),
    Uint(u8, u64),
    /// list-typed value: time
    ListTime(u32),
}

#[derive(Debug, Clone, PartialEq, Eq)]
pub struct REntry {
    pub obj_name: Vec<u8>,
    /// (width class, value)
    pub status: Option<(u8, u64)>,
    pub val_time: Option<u32>,
    pub unit: Option<u8>,
    pub scaler: Option<i8>,
    pub value: RValue,
    pub sig: Option<Vec<u8>>,
}

#[derive(Debug, Clone, PartialEq, Eq)]
pub struct ROpen {
    pub codepage: Option<Vec<u8>>,
    pub client_id: Option<Vec<u8>>,
    pub req_file_id: Vec<u8>,
    pub server_id: Vec<u8>,
    pub ref_time: Option<u32>,
    pub sml_version: Option<u8>,
}

#[derive(Debug, Clone, PartialEq, Eq)]
pub struct RGetListHead {
    pub client_id: Option<Vec<u8>>,
    pub server_id: Vec<u8>,
    pub list_name: Option<Vec<u8>>,
    pub act_sensor_time: Option<u32>,
}

#[derive(Debug, Clone, PartialEq, Eq)]
pub struct RGetListTail {
    pub list_sig: Option<Vec<u8>>,
    pub act_gateway_time: Option<u32>,
}

#[derive(Debug, Clone, PartialEq, Eq)]
pub enum RBody {
    Open(ROpen),
    Close { sig: Option<Vec<u8>> },
    GetList { head: RGetListHead, entries: Vec<REntry>, tail: RGetListTail },
}

#[derive(Debug, Clone, PartialEq, Eq)]
pub struct RMsg {
    pub transaction_id: Vec<u8>,
    pub group_no: u8,
    pub abort_on_error: u8,
    pub body: RBody,
}

#[derive(Debug, Clone, PartialEq, Eq, Default)]
pub struct RFile {
    pub msgs: Vec<RMsg>,
}

/// What a streaming reader exposes, in order.
#[derive(Debug, Clone, PartialEq, Eq)]
pub enum REvent {
    MsgStart { transaction_id: Vec<u8>, group_no: u8, abort_on_error: u8, body: RStart },
    Entry(REntry),
    ListEnd(RGetListTail),
}

#[derive(Debug, Clone, PartialEq, Eq)]
pub enum RStart {
    Open(ROpen),
    Close { sig: Option<Vec<u8>> },
    GetList { head: RGetListHead, num_vals: u32 },
}

/// Reassembles events into a file. Returns None when the sequence is not well-shaped
/// (entries without a list start, wrong count, missing end).
pub fn assemble(events: &[REvent]) -> Option<RFile> {
    let mut msgs = Vec::new();
    let mut i = 0;
    while i < events.len() {
        match &events[i] {
            REvent::MsgStart { transaction_id, group_no, abort_on_error, body } => {
                i += 1;
                let body = match body {
                    RStart::Open(o) => RBody::Open(o.clone()),
                    RStart::Close { sig } => RBody::Close { sig: sig.clone() },
                    RStart::GetList { head, num_vals } => {
                        let mut entries = Vec::new();
                        for _ in 0..*num_vals {
                            match events.get(i) {
                                Some(REvent::Entry(e)) => {
                                    entries.push(e.clone());
                                    i += 1;
                                }
                                _ => return None,
                            }
                        }
                        let tail = match events.get(i) {
                            Some(REvent::ListEnd(t)) => {
                                i += 1;
                                t.clone()
                            }
                            _ => return None,
                        };
                        RBody::GetList { head: head.clone(), entries, tail }
                    }
                };
                msgs.push(RMsg {
                    transaction_id: transaction_id.clone(),
                    group_no: *group_no,
                    abort_on_error: *abort_on_error,
                    body,
                });
            }
            _ => return None,
        }
    }
    Some(RFile { msgs })
}

/// Flattens a file into the event sequence a streaming reader must produce.
pub fn events_of(file: &RFile) -> Vec<REvent> {
    let mut ev = Vec::new();
    for m in &file.msgs {
        let start = match &m.body {
            RBody::Open(o) => RStart::Open(o.clone()),
            RBody::Close { sig } => RStart::Close { sig: sig.clone() },
            RBody::GetList { head, entries, .. } => {
                RStart::GetList { head: head.clone(), num_vals: entries.len() as u32 }
            }
        };
        ev.push(REvent::MsgStart {
            transaction_id: m.transaction_id.clone(),
            group_no: m.group_no,
            abort_on_error: m.abort_on_error,
            body: start,
        });
        if let RBody::GetList { entries, tail, .. } = &m.body {
            for e in entries {
                ev.push(REvent::Entry(e.clone()));
            }
            ev.push(REvent::ListEnd(tail.clone()));
        }
    }
    ev
}

// ---------------------------------------------------------------------------------------
// concrete syntax tree (abstract content + encoding choices)
// ---------------------------------------------------------------------------------------

#[derive(Debug, Clone, PartialEq, Eq)]
pub struct COctet {
    pub data: Vec<u8>,
    /// extra (non-minimal) TLF bytes, 0..=3
    pub extra: u8,
}

/// Unsigned integer: `width` encoded bytes (1..=8), value < 2^(8*width).
#[derive(Debug, Clone, PartialEq, Eq)]
pub struct CUint {
    pub value: u64,
    pub width: u8,
    pub extra: u8,
}

/// Signed integer: `width` encoded bytes (1..=8), value representable in `width` bytes.
#[derive(Debug, Clone, PartialEq, Eq)]
pub struct CInt {
    pub value: i64,
    pub width: u8,
    pub extra: u8,
}

#[derive(Debug, Clone, PartialEq, Eq)]
pub enum CTime {
    /// list(2) { u8 tag = 1, u32 in 1..=4 bytes }
    Std { list_extra: u8, tag_extra: u8, secs: CUint },
    /// bare unsigned with exactly 4 bytes (Holley DTZ541 workaround)
    Bare { secs: u32, extra: u8 },
}

#[derive(Debug, Clone, PartialEq, Eq)]
pub enum CValue {
    /// raw byte on the wire; value = byte != 0
    Bool(u8),
    Bytes(COctet),
    Int(CInt),
    Uint(CUint),
    ListTime { list_extra: u8, tag_extra: u8, time: CTime },
}

#[derive(Debug, Clone, PartialEq, Eq)]
pub struct CEntry {
    pub list_extra: u8,
    pub obj_name: COctet,
    pub status: Option<CUint>,
    pub val_time: Option<CTime>,
    pub unit: Option<CUint>,   // width 1
    pub scaler: Option<CInt>,  // width 1
    pub value: CValue,
    pub sig: Option<COctet>,
}

#[derive(Debug, Clone, PartialEq, Eq)]
pub enum CBody {
    Open {
        list_extra: u8,
        codepage: Option<COctet>,
        client_id: Option<COctet>,
        req_file_id: COctet,
        server_id: COctet,
        ref_time: Option<CTime>,
        sml_version: Option<CUint>, // width 1
    },
    Close {
        list_extra: u8,
        sig: Option<COctet>,
    },
    GetList {
        list_extra: u8,
        client_id: Option<COctet>,
        server_id: COctet,
        list_name: Option<COctet>,
        act_sensor_time: Option<CTime>,
        vals_extra: u8,
        entries: Vec<CEntry>,
        list_sig: Option<COctet>,
        act_gateway_time: Option<CTime>,
    },
}

#[derive(Debug, Clone, PartialEq, Eq)]
pub struct CMsg {
    pub list_extra: u8,
    pub transaction_id: COctet,
    pub group_no: CUint, // width 1
    pub abort_on_error: CUint, // width 1
    pub body_list_extra: u8,
    /// encoded width of the body tag (2..=4; the tags need two bytes)
    pub tag_width: u8,
    pub tag_extra: u8,
    pub body: CBody,
    /// use a 1-byte CRC field when the value allows it
    pub crc_short: bool,
    pub crc_extra: u8,
}

#[derive(Debug, Clone, PartialEq, Eq, Default)]
pub struct CFile {
    pub msgs: Vec<CMsg>,
}

pub fn class_of_width(w: u8) -> u8 {
    match w {
        1 => 1,
        2 => 2,
        3 | 4 => 4,
        _ => 8,
    }
}

impl COctet {
    pub fn plain(data: &[u8]) -> Self {
        COctet { data: data.to_vec(), extra: 0 }
    }
}
impl CUint {
    pub fn w(value: u64, width: u8) -> Self {
        CUint { value, width, extra: 0 }
    }
}

impl CTime {
    pub fn secs(&self) -> u32 {
        match self {
            CTime::Std { secs, .. } => secs.value as u32,
            CTime::Bare { secs, .. } => *secs,
        }
    }
}

fn abs_oct(o: &Option<COctet>) -> Option<Vec<u8>> {
    o.as_ref().map(|x| x.data.clone())
}

impl CValue {
    pub fn abstract_(&self) -> RValue {
        match self {
            CValue::Bool(b) => RValue::Bool(*b != 0),
            CValue::Bytes(o) => RValue::Bytes(o.data.clone()),
            CValue::Int(i) => RValue::Int(class_of_width(i.width), i.value),
            CValue::Uint(u) => RValue::Uint(class_of_width(u.width), u.value),
            CValue::ListTime { time, .. } => RValue::ListTime(time.secs()),
        }
    }
}

impl CEntry {
    pub fn abstract_(&self) -> REntry {
        REntry {
            obj_name: self.obj_name.data.clone(),
            status: self.status.as_ref().map(|s| (class_of_width(s.width), s.value)),
            val_time: self.val_time.as_ref().map(|t| t.secs()),
            unit: self.unit.as_ref().map(|u| u.value as u8),
            scaler: self.scaler.as_ref().map(|s| s.value as i8),
            value: self.value.abstract_(),
            sig: abs_oct(&self.sig),
        }
    }
}

impl CMsg {
    pub fn abstract_(&self) -> RMsg {
        let body = match &self.body {
            CBody::Open { codepage, client_id, req_file_id, server_id, ref_time, sml_version, .. } => {
                RBody::Open(ROpen {
                    codepage: abs_oct(codepage),
                    client_id: abs_oct(client_id),
                    req_file_id: req_file_id.data.clone(),
                    server_id: server_id.data.clone(),
                    ref_time: ref_time.as_ref().map(|t| t.secs()),
                    sml_version: sml_version.as_ref().map(|v| v.value as u8),
                })
            }
            CBody::Close { sig, .. } => RBody::Close { sig: abs_oct(sig) },
            CBody::GetList {
                client_id,
                server_id,
                list_name,
                act_sensor_time,
                entries,
                list_sig,
                act_gateway_time,
                ..
            } => RBody::GetList {
                head: RGetListHead {
                    client_id: abs_oct(client_id),
                    server_id: server_id.data.clone(),
                    list_name: abs_oct(list_name),
                    act_sensor_time: act_sensor_time.as_ref().map(|t| t.secs()),
                },
                entries: entries.iter().map(|e| e.abstract_()).collect(),
                tail: RGetListTail {
                    list_sig: abs_oct(list_sig),
                    act_gateway_time: act_gateway_time.as_ref().map(|t| t.secs()),
                },
            },
        };
        RMsg {
            transaction_id: self.transaction_id.data.clone(),
            group_no: self.group_no.value as u8,
            abort_on_error: self.abort_on_error.value as u8,
            body,
        }
    }
}

impl CFile {
    pub fn abstract_(&self) -> RFile {
        RFile { msgs: self.msgs.iter().map(|m| m.abstract_()).collect() }
    }
}

// ---------------------------------------------------------------------------------------
// writer
// ---------------------------------------------------------------------------------------

pub const TY_OCTET: u8 = 0b000;
pub const TY_BOOL: u8 = 0b100;
pub const TY_INT: u8 = 0b101;
pub const TY_UINT: u8 = 0b110;
pub const TY_LIST: u8 = 0b111;

#[derive(Debug, Clone, PartialEq, Eq)]
pub struct TlfSpan {
    pub pos: usize,
    pub n: usize,
    /// where in the grammar this TLF sits (for classification and targeted mutation)
    pub ctx: &'static str,
    pub ty: u8,
}

#[derive(Debug, Clone, PartialEq, Eq)]
pub struct MsgSpan {
    pub start: usize,
    /// offset of the CRC field's TLF (= end of the bytes covered by the CRC)
    pub crc_tlf: usize,
    /// offset and width of the CRC value bytes
    pub crc_val: usize,
    pub crc_width: usize,
    pub end: usize,
}

#[derive(Debug, Clone, Default)]
pub struct Written {
    pub bytes: Vec<u8>,
    pub tlfs: Vec<TlfSpan>,
    pub msgs: Vec<MsgSpan>,
}

/// Encodes a TLF whose concatenated nibbles equal `value`, using exactly `nbytes` bytes
/// (leading zero nibbles if necessary). `value` must fit `4*nbytes` bits.
pub fn tlf_bytes(ty: u8, value: u64, nbytes: usize) -> Vec<u8> {
    let mut v = Vec::with_capacity(nbytes);
    for i in 0..nbytes {
        let shift = 4 * (nbytes - 1 - i);
        let nib = if shift >= 64 { 0 } else { ((value >> shift) & 0xf) as u8 };
        let more = if i + 1 < nbytes { 0x80 } else { 0 };
        let t = if i == 0 { ty << 4 } else { 0 };
        v.push(more | t | nib);
    }
    v
}

fn nibbles_needed(value: u64) -> usize {
    let mut n = 1;
    let mut v = value >> 4;
    while v > 0 {
        n += 1;
        v >>= 4;
    }
    n
}

/// TLF for a primitive of `data_len` bytes with `extra` non-minimal TLF bytes.
pub fn prim_tlf(ty: u8, data_len: usize, extra: u8) -> Vec<u8> {
    // smallest k with data_len + k < 16^k
    let mut k = 1usize;
    loop {
        let v = (data_len + k) as u64;
        if nibbles_needed(v) <= k {
            break;
        }
        k += 1;
    }
    let k = k + extra as usize;
    tlf_bytes(ty, (data_len + k) as u64, k)
}

pub fn list_tlf(count: u64, extra: u8) -> Vec<u8> {
    let k = nibbles_needed(count) + extra as usize;
    tlf_bytes(TY_LIST, count, k)
}

struct W {
    out: Written,
}

impl W {
    fn tlf(&mut self, bytes: Vec<u8>, ctx: &'static str, ty: u8) {
        self.out.tlfs.push(TlfSpan { pos: self.out.bytes.len(), n: bytes.len(), ctx, ty });
        self.out.bytes.extend_from_slice(&bytes);
    }
    fn list(&mut self, count: u64, extra: u8, ctx: &'static str) {
        self.tlf(list_tlf(count, extra), ctx, TY_LIST);
    }
    fn octet(&mut self, o: &COctet, ctx: &'static str) {
        // an empty octet string with a minimal TLF is "01"; that is fine in a mandatory
        // position and would read as "absent" in an optional one (callers force extra>=1 there)
        self.tlf(prim_tlf(TY_OCTET, o.data.len(), o.extra), ctx, TY_OCTET);
        self.out.bytes.extend_from_slice(&o.data);
    }
    fn opt_octet(&mut self, o: &Option<COctet>, ctx: &'static str) {
        match o {
            None => self.out.bytes.push(0x01),
            Some(o) => {
                let mut o = o.clone();
                if o.data.is_empty() && o.extra == 0 {
                    o.extra = 1;
                }
                self.octet(&o, ctx)
            }
        }
    }
    fn uint(&mut self, u: &CUint, ctx: &'static str) {
        self.tlf(prim_tlf(TY_UINT, u.width as usize, u.extra), ctx, TY_UINT);
        let be = u.value.to_be_bytes();
        self.out.bytes.extend_from_slice(&be[8 - u.width as usize..]);
    }
    fn opt_uint(&mut self, u: &Option<CUint>, ctx: &'static str) {
        match u {
            None => self.out.bytes.push(0x01),
            Some(u) => self.uint(u, ctx),
        }
    }
    fn int(&mut self, i: &CInt, ctx: &'static str) {
        self.tlf(prim_tlf(TY_INT, i.width as usize, i.extra), ctx, TY_INT);
        let be = i.value.to_be_bytes();
        self.out.bytes.extend_from_slice(&be[8 - i.width as usize..]);
    }
    fn opt_int(&mut self, i: &Option<CInt>, ctx: &'static str) {
        match i {
            None => self.out.bytes.push(0x01),
            Some(i) => self.int(i, ctx),
        }
    }
    fn time(&mut self, t: &CTime) {
        match t {
            CTime::Std { list_extra, tag_extra, secs } => {
                self.list(2, *list_extra, "time-list");
                self.uint(&CUint { value: 1, width: 1, extra: *tag_extra }, "time-tag");
                self.uint(secs, "time-secs");
            }
            CTime::Bare { secs, extra } => {
                self.uint(&CUint { value: *secs as u64, width: 4, extra: *extra }, "time-bare");
            }
        }
    }
    fn opt_time(&mut self, t: &Option<CTime>) {
        match t {
            None => self.out.bytes.push(0x01),
            Some(t) => self.time(t),
        }
    }
    fn value(&mut self, v: &CValue) {
        match v {
            CValue::Bool(b) => {
                self.tlf(vec![0x42], "value-bool", TY_BOOL);
                self.out.bytes.push(*b);
            }
            CValue::Bytes(o) => self.octet(o, "value-octet"),
            CValue::Int(i) => self.int(i, "value-int"),
            CValue::Uint(u) => self.uint(u, "value-uint"),
            CValue::ListTime { list_extra, tag_extra, time } => {
                self.list(2, *list_extra, "value-list");
                self.uint(&CUint { value: 1, width: 1, extra: *tag_extra }, "value-list-tag");
                self.time(time);
            }
        }
    }
    fn entry(&mut self, e: &CEntry) {
        self.list(7, e.list_extra, "entry-list");
        self.octet(&e.obj_name, "obj-name");
        self.opt_uint(&e.status, "status");
        self.opt_time(&e.val_time);
        self.opt_uint(&e.unit, "unit");
        self.opt_int(&e.scaler, "scaler");
        self.value(&e.value);
        self.opt_octet(&e.sig, "value-sig");
    }
    fn msg(&mut self, m: &CMsg) {
        let start = self.out.bytes.len();
        self.list(6, m.list_extra, "msg-list");
        self.octet(&m.transaction_id, "transaction-id");
        self.uint(&m.group_no, "group-no");
        self.uint(&m.abort_on_error, "abort-on-error");
        self.list(2, m.body_list_extra, "body-list");
        let tag: u64 = match &m.body {
            CBody::Open { .. } => 0x0101,
            CBody::Close { .. } => 0x0201,
            CBody::GetList { .. } => 0x0701,
        };
        self.uint(&CUint { value: tag, width: m.tag_width.clamp(2, 4), extra: m.tag_extra }, "body-tag");
        match &m.body {
            CBody::Open { list_extra, codepage, client_id, req_file_id, server_id, ref_time, sml_version } => {
                self.list(6, *list_extra, "open-list");
                self.opt_octet(codepage, "codepage");
                self.opt_octet(client_id, "client-id");
                self.octet(req_file_id, "req-file-id");
                self.octet(server_id, "server-id");
                self.opt_time(ref_time);
                self.opt_uint(sml_version, "sml-version");
            }
            CBody::Close { list_extra, sig } => {
                self.list(1, *list_extra, "close-list");
                self.opt_octet(sig, "global-sig");
            }
            CBody::GetList {
                list_extra,
                client_id,
                server_id,
                list_name,
                act_sensor_time,
                vals_extra,
                entries,
                list_sig,
                act_gateway_time,
            } => {
                self.list(7, *list_extra, "getlist-list");
                self.opt_octet(client_id, "client-id");
                self.octet(server_id, "server-id");
                self.opt_octet(list_name, "list-name");
                self.opt_time(act_sensor_time);
                self.list(entries.len() as u64, *vals_extra, "val-list");
                for e in entries {
                    self.entry(e);
                }
                self.opt_octet(list_sig, "list-sig");
                self.opt_time(act_gateway_time);
            }
        }
        let crc_tlf = self.out.bytes.len();
        let crc = crc16_x25(&self.out.bytes[start..crc_tlf]);
        // wire order: low byte first; read as a big-endian unsigned the field value is lo*256+hi
        let field = ((crc & 0xff) << 8) | (crc >> 8);
        let width = if m.crc_short && field < 256 { 1 } else { 2 };
        self.uint(&CUint { value: field as u64, width, extra: m.crc_extra }, "crc");
        let crc_val = self.out.bytes.len() - width as usize;
        self.out.bytes.push(0x00);
        let end = self.out.bytes.len();
        self.out.msgs.push(MsgSpan { start, crc_tlf, crc_val, crc_width: width as usize, end });
    }
}

/// For every message that asks for the shortened checksum field (`crc_short`), varies its group number
/// (and, if needed, the abort-on-error byte) until the checksum's first wire byte is zero, so that the
/// one-byte encoding `62 xx` really is used (by chance it applies to one message in 256 only; real meters
/// do send it). Returns the number of messages that now use the short form.
pub fn grind_short_crc(file: &mut CFile) -> usize {
    let mut n = 0;
    for m in &mut file.msgs {
        if !m.crc_short || m.group_no.width != 1 || m.abort_on_error.width != 1 {
            continue;
        }
        let (g0, a0) = (m.group_no.value, m.abort_on_error.value);
        let mut found = false;
        'search: for a in [a0, 0x00, 0xff, 0x01] {
            for g in 0..=255u64 {
                m.group_no.value = g;
                m.abort_on_error.value = a;
                let mut w = W { out: Written::default() };
                w.msg(m);
                if w.out.msgs[0].crc_width == 1 {
                    found = true;
                    break 'search;
                }
            }
        }
        if found {
            n += 1;
        } else {
            m.group_no.value = g0;
            m.abort_on_error.value = a0;
        }
    }
    n
}

pub fn write(file: &CFile) -> Written {
    let mut w = W { out: Written::default() };
    for m in &file.msgs {
        w.msg(m);
    }
    w.out
}

// ---------------------------------------------------------------------------------------
// reader
// ---------------------------------------------------------------------------------------

#[derive(Debug, Clone, Copy, PartialEq, Eq)]
pub enum RejectKind {
    Eof,
    TlfInvalidType,
    TlfReserved,
    TlfContType,
    TlfOverflow,
    TlfUnderflow,
    /// wrong type / arity / width for the grammar position
    Type,
    Variant,
    Crc,
    EndMarker,
}

impl RejectKind {
    pub fn label(&self) -> &'static str {
        match self {
            RejectKind::Eof => "eof",
            RejectKind::TlfInvalidType => "tlf-invalid-type",
            RejectKind::TlfReserved => "tlf-reserved",
            RejectKind::TlfContType => "tlf-cont-type",
            RejectKind::TlfOverflow => "tlf-overflow",
            RejectKind::TlfUnderflow => "tlf-underflow",
            RejectKind::Type => "type-arity",
            RejectKind::Variant => "variant",
            RejectKind::Crc => "crc",
            RejectKind::EndMarker => "end-marker",
        }
    }
}

#[derive(Debug, Clone, PartialEq, Eq)]
pub struct Reject {
    pub kind: RejectKind,
    pub at: usize,
    pub what: &'static str,
}

#[derive(Debug, Clone, Copy, PartialEq, Eq)]
pub struct Tlf {
    pub ty: u8,
    /// declared length: data bytes for primitives, element count for lists
    pub len: u64,
    pub nbytes: usize,
    /// raw concatenated nibble value (before subtracting the TLF size)
    pub raw: u64,
}

/// Decodes one type-length field at the beginning of `b`.
pub fn read_tlf(b: &[u8], at: usize) -> Result<Tlf, Reject> {
    let rej = |kind, what| Reject { kind, at, what };
    let b0 = *b.first().ok_or(rej(RejectKind::Eof, "tlf"))?;
    let ty = (b0 >> 4) & 7;
    if !matches!(ty, TY_OCTET | TY_BOOL | TY_INT | TY_UINT | TY_LIST) {
        return Err(rej(RejectKind::TlfInvalidType, "tlf type"));
    }
    let mut more = b0 & 0x80 != 0;
    if ty == TY_BOOL && more {
        return Err(rej(RejectKind::TlfReserved, "bool with more-bit"));
    }
    let mut value: u128 = (b0 & 0x0f) as u128;
    let mut n = 1usize;
    while more {
        let bi = *b.get(n).ok_or(rej(RejectKind::Eof, "tlf continuation"))?;
        if (bi >> 4) & 7 != 0 {
            return Err(rej(RejectKind::TlfContType, "continuation type bits"));
        }
        more = bi & 0x80 != 0;
        value = value * 16 + (bi & 0x0f) as u128;
        n += 1;
        if value > u32::MAX as u128 {
            return Err(rej(RejectKind::TlfOverflow, "length exceeds 32 bits"));
        }
    }
    let raw = value as u64;
    let len = if ty == TY_LIST {
        raw
    } else {
        if raw < n as u64 {
            return Err(rej(RejectKind::TlfUnderflow, "length smaller than tlf"));
        }
        raw - n as u64
    };
    Ok(Tlf { ty, len, nbytes: n, raw })
}

struct Rd<'a> {
    b: &'a [u8],
    pos: usize,
    tlfs: Vec<TlfSpan>,
    /// (declared length / count, type) of the first TLF that declares more than the input still holds
    overlong: Option<(u64, u8)>,
    last_tlf: Option<Tlf>,
}

type RR<T> = Result<T, Reject>;

impl<'a> Rd<'a> {
    fn rej<T>(&self, kind: RejectKind, what: &'static str) -> RR<T> {
        Err(Reject { kind, at: self.pos, what })
    }
    fn tlf(&mut self) -> RR<Tlf> {
        let t = read_tlf(&self.b[self.pos..], self.pos)?;
        self.tlfs.push(TlfSpan { pos: self.pos, n: t.nbytes, ctx: "read", ty: t.ty });
        self.pos += t.nbytes;
        self.last_tlf = Some(t);
        if t.ty == TY_LIST && t.len > (self.b.len() - self.pos) as u64 && self.overlong.is_none() {
            self.overlong = Some((t.len, t.ty));
        }
        Ok(t)
    }
    fn take(&mut self, n: u64) -> RR<&'a [u8]> {
        let rest = self.b.len() - self.pos;
        if n > rest as u64 {
            if self.overlong.is_none() {
                if let Some(t) = self.last_tlf {
                    if t.len == n {
                        self.overlong = Some((n, t.ty));
                    }
                }
            }
            return self.rej(RejectKind::Eof, "data");
        }
        let s = &self.b[self.pos..self.pos + n as usize];
        self.pos += n as usize;
        Ok(s)
    }
    fn peek_absent(&mut self) -> bool {
        if self.b.get(self.pos) == Some(&0x01) {
            self.pos += 1;
            true
        } else {
            false
        }
    }
    fn list(&mut self, count: u64, what: &'static str) -> RR<()> {
        let at = self.pos;
        let t = self.tlf()?;
        if t.ty != TY_LIST || t.len != count {
            return Err(Reject { kind: RejectKind::Type, at, what });
        }
        Ok(())
    }
    fn octet(&mut self, what: &'static str) -> RR<Vec<u8>> {
        let at = self.pos;
        let t = self.tlf()?;
        if t.ty != TY_OCTET {
            return Err(Reject { kind: RejectKind::Type, at, what });
        }
        Ok(self.take(t.len)?.to_vec())
    }
    fn opt_octet(&mut self, what: &'static str) -> RR<Option<Vec<u8>>> {
        if self.peek_absent() {
            return Ok(None);
        }
        self.octet(what).map(Some)
    }
    /// unsigned of 1..=max bytes; returns (encoded width, value)
    fn uint(&mut self, max: u64, what: &'static str) -> RR<(u8, u64)> {
        let at = self.pos;
        let t = self.tlf()?;
        if t.ty != TY_UINT || t.len == 0 || t.len > max {
            return Err(Reject { kind: RejectKind::Type, at, what });
        }
        let d = self.take(t.len)?;
        let mut v = 0u64;
        for &x in d {
            v = (v << 8) | x as u64;
        }
        Ok((t.len as u8, v))
    }
    fn sint_from(d: &[u8]) -> i64 {
        let mut v: i64 = if d[0] & 0x80 != 0 { -1 } else { 0 };
        for &x in d {
            v = (v << 8) | x as i64;
        }
        v
    }
    fn opt_u8(&mut self, what: &'static str) -> RR<Option<u8>> {
        if self.peek_absent() {
            return Ok(None);
        }
        Ok(Some(self.uint(1, what)?.1 as u8))
    }
    fn opt_i8(&mut self, what: &'static str) -> RR<Option<i8>> {
        if self.peek_absent() {
            return Ok(None);
        }
        let at = self.pos;
        let t = self.tlf()?;
        if t.ty != TY_INT || t.len != 1 {
            return Err(Reject { kind: RejectKind::Type, at, what });
        }
        let d = self.take(1)?;
        Ok(Some(d[0] as i8))
    }
    fn time(&mut self) -> RR<u32> {
        let at = self.pos;
        let t = self.tlf()?;
        if t.ty == TY_UINT && t.len == 4 {
            let d = self.take(4)?;
            return Ok(u32::from_be_bytes([d[0], d[1], d[2], d[3]]));
        }
        if t.ty != TY_LIST || t.len != 2 {
            return Err(Reject { kind: RejectKind::Type, at, what: "time" });
        }
        let tag_at = self.pos;
        let (_, tag) = self.uint(1, "time tag")?;
        if tag != 1 {
            return Err(Reject { kind: RejectKind::Variant, at: tag_at, what: "time tag" });
        }
        let (_, secs) = self.uint(4, "time secs")?;
        Ok(secs as u32)
    }
    fn opt_time(&mut self) -> RR<Option<u32>> {
        if self.peek_absent() {
            return Ok(None);
        }
        self.time().map(Some)
    }
    fn status(&mut self) -> RR<Option<(u8, u64)>> {
        if self.peek_absent() {
            return Ok(None);
        }
        let (w, v) = self.uint(8, "status")?;
        Ok(Some((class_of_width(w), v)))
    }
    fn value(&mut self) -> RR<RValue> {
        let at = self.pos;
        let t = self.tlf()?;
        let bad = Reject { kind: RejectKind::Type, at, what: "value" };
        match t.ty {
            TY_BOOL => {
                if t.len != 1 {
                    return Err(bad);
                }
                let d = self.take(1)?;
                Ok(RValue::Bool(d[0] != 0))
            }
            TY_OCTET => Ok(RValue::Bytes(self.take(t.len)?.to_vec())),
            TY_INT => {
                if t.len == 0 || t.len > 8 {
                    return Err(bad);
                }
                let d = self.take(t.len)?;
                Ok(RValue::Int(class_of_width(t.len as u8), Self::sint_from(d)))
            }
            TY_UINT => {
                if t.len == 0 || t.len > 8 {
                    return Err(bad);
                }
                let d = self.take(t.len)?;
                let mut v = 0u64;
                for &x in d {
                    v = (v << 8) | x as u64;
                }
                Ok(RValue::Uint(class_of_width(t.len as u8), v))
            }
            TY_LIST => {
                if t.len != 2 {
                    return Err(bad);
                }
                let tag_at = self.pos;
                let (_, tag) = self.uint(1, "list-type tag")?;
                if tag != 1 {
                    return Err(Reject { kind: RejectKind::Variant, at: tag_at, what: "list-type tag" });
                }
                Ok(RValue::ListTime(self.time()?))
            }
            _ => Err(bad),
        }
    }
    fn entry(&mut self) -> RR<REntry> {
        self.list(7, "list entry")?;
        let obj_name = self.octet("obj name")?;
        let status = self.status()?;
        let val_time = self.opt_time()?;
        let unit = self.opt_u8("unit")?;
        let scaler = self.opt_i8("scaler")?;
        let value = self.value()?;
        let sig = self.opt_octet("value signature")?;
        Ok(REntry { obj_name, status, val_time, unit, scaler, value, sig })
    }
}

#[derive(Debug, Clone, Default)]
pub struct ReadOut {
    /// every TLF the reader decoded, in input order
    pub tlfs: Vec<TlfSpan>,
    /// first TLF declaring more bytes / elements than the input still holds: (declared, type)
    pub overlong: Option<(u64, u8)>,
    pub events: Vec<REvent>,
    /// spans of messages whose structure was read up to and including the end marker
    pub msgs: Vec<MsgSpan>,
    pub reject: Option<Reject>,
}

/// Reads `bytes` as an SML file, producing streaming-granularity events until the input is
/// exhausted or the first rejection. With `check_crc == false` checksum mismatches are
/// ignored (used to locate the checksum fields for the fix-up mutator).
pub fn read_events(bytes: &[u8], check_crc: bool) -> ReadOut {
    let mut out = ReadOut::default();
    let mut r = Rd { b: bytes, pos: 0, tlfs: Vec::new(), overlong: None, last_tlf: None };
    while r.pos < bytes.len() {
        if let Err(e) = read_msg(&mut r, check_crc, &mut out) {
            out.reject = Some(e);
            break;
        }
    }
    out.tlfs = r.tlfs;
    out.overlong = r.overlong;
    out
}

fn read_msg(r: &mut Rd, check_crc: bool, out: &mut ReadOut) -> RR<()> {
    let start = r.pos;
    r.list(6, "message")?;
    let transaction_id = r.octet("transaction id")?;
    let group_no = r.uint(1, "group no")?.1 as u8;
    let abort_on_error = r.uint(1, "abort on error")?.1 as u8;
    r.list(2, "message body")?;
    let tag_at = r.pos;
    let (_, tag) = r.uint(4, "body tag")?;
    let mut pending_entries: Option<u64> = None;
    let body = match tag {
        0x0101 => {
            r.list(6, "open response")?;
            let codepage = r.opt_octet("codepage")?;
            let client_id = r.opt_octet("client id")?;
            let req_file_id = r.octet("req file id")?;
            let server_id = r.octet("server id")?;
            let ref_time = r.opt_time()?;
            let sml_version = r.opt_u8("sml version")?;
            RStart::Open(ROpen { codepage, client_id, req_file_id, server_id, ref_time, sml_version })
        }
        0x0201 => {
            r.list(1, "close response")?;
            RStart::Close { sig: r.opt_octet("global signature")? }
        }
        0x0701 => {
            r.list(7, "get list response")?;
            let client_id = r.opt_octet("client id")?;
            let server_id = r.octet("server id")?;
            let list_name = r.opt_octet("list name")?;
            let act_sensor_time = r.opt_time()?;
            let at = r.pos;
            let t = r.tlf()?;
            if t.ty != TY_LIST {
                return Err(Reject { kind: RejectKind::Type, at, what: "value list" });
            }
            pending_entries = Some(t.len);
            RStart::GetList {
                head: RGetListHead { client_id, server_id, list_name, act_sensor_time },
                num_vals: t.len as u32,
            }
        }
        _ => return Err(Reject { kind: RejectKind::Variant, at: tag_at, what: "body tag" }),
    };
    out.events.push(REvent::MsgStart { transaction_id, group_no, abort_on_error, body });
    if let Some(n) = pending_entries {
        for _ in 0..n {
            let e = r.entry()?;
            out.events.push(REvent::Entry(e));
        }
        let list_sig = r.opt_octet("list signature")?;
        let act_gateway_time = r.opt_time()?;
        out.events.push(REvent::ListEnd(RGetListTail { list_sig, act_gateway_time }));
    }
    let crc_tlf = r.pos;
    let (w, field) = r.uint(2, "crc")?;
    let crc_val = r.pos - w as usize;
    let end_at = r.pos;
    let e = r.take(1).map_err(|mut e| {
        e.what = "end marker";
        e
    })?;
    if e[0] != 0 {
        return Err(Reject { kind: RejectKind::EndMarker, at: end_at, what: "end marker" });
    }
    let crc = crc16_x25(&r.b[start..crc_tlf]);
    let expect_field = (((crc & 0xff) << 8) | (crc >> 8)) as u64;
    if check_crc && field != expect_field {
        return Err(Reject { kind: RejectKind::Crc, at: crc_tlf, what: "crc" });
    }
    out.msgs.push(MsgSpan { start, crc_tlf, crc_val, crc_width: w as usize, end: r.pos });
    Ok(())
}

/// Strict reading: `Ok(file)` iff the grammar accepts all of `bytes`.
pub fn read_file(bytes: &[u8]) -> Result<RFile, Reject> {
    let out = read_events(bytes, true);
    match out.reject {
        Some(r) => Err(r),
        None => Ok(assemble(&out.events).expect("accepted input assembles")),
    }
}

/// Recomputes every message checksum that can be located (structure readable up to the end
/// marker when checksums are ignored) and that has a 2-byte field. Returns how many were patched.
pub fn fix_crcs(bytes: &mut [u8]) -> usize {
    let out = read_events(bytes, false);
    let mut n = 0;
    for m in &out.msgs {
        let crc = crc16_x25(&bytes[m.start..m.crc_tlf]);
        if m.crc_width == 2 {
            let want = [(crc & 0xff) as u8, (crc >> 8) as u8];
            if bytes[m.crc_val..m.crc_val + 2] != want {
                bytes[m.crc_val] = want[0];
                bytes[m.crc_val + 1] = want[1];
                n += 1;
            }
        } else if m.crc_width == 1 && (crc & 0xff) == 0 {
            let want = (crc >> 8) as u8;
            if bytes[m.crc_val] != want {
                bytes[m.crc_val] = want;
                n += 1;
            }
        }
    }
    n
}

/// Grammar-independent checksum fix-up: every `63 xx xx 00` (2-byte unsigned followed by an end
/// marker) that is followed by the end of input or by a list TLF is taken as the trailer of a
/// message that starts right after the previous trailer; its checksum is recomputed. Unlike
/// `fix_crcs` this also works for messages the grammar rejects (wrong arity, wrong types), which
/// is exactly where the parsers' structural checks must decide. Returns the number patched.
pub fn fix_crcs_scan(bytes: &mut [u8]) -> usize {
    let mut n = 0;
    let mut start = 0usize;
    let mut p = 0usize;
    while p + 4 <= bytes.len() {
        let next_ok = p + 4 == bytes.len() || bytes[p + 4] & 0x70 == 0x70;
        if bytes[p] == 0x63 && bytes[p + 3] == 0x00 && next_ok && p > start {
            let crc = crc16_x25(&bytes[start..p]);
            let want = [(crc & 0xff) as u8, (crc >> 8) as u8];
            if bytes[p + 1..p + 3] != want {
                bytes[p + 1] = want[0];
                bytes[p + 2] = want[1];
                n += 1;
            }
            start = p + 4;
            p += 4;
        } else {
            p += 1;
        }
    }
    n
}

#[cfg(test)]
mod tests {
    use super::*;

    fn sample() -> CFile {
        let t = CTime::Std { list_extra: 0, tag_extra: 0, secs: CUint::w(0x123456, 3) };
        CFile {
            msgs: vec![
                CMsg {
                    list_extra: 0,
                    transaction_id: COctet::plain(&[1, 2, 3]),
                    group_no: CUint::w(0, 1),
                    abort_on_error: CUint::w(0, 1),
                    body_list_extra: 0,
                    tag_width: 2,
                    tag_extra: 0,
                    body: CBody::Open {
                        list_extra: 0,
                        codepage: None,
                        client_id: None,
                        req_file_id: COctet::plain(&[9; 6]),
                        server_id: COctet::plain(&[8; 10]),
                        ref_time: Some(t.clone()),
                        sml_version: None,
                    },
                    crc_short: false,
                    crc_extra: 0,
                },
                CMsg {
                    list_extra: 1,
                    transaction_id: COctet { data: vec![7; 20], extra: 1 },
                    group_no: CUint::w(0, 1),
                    abort_on_error: CUint::w(0, 1),
                    body_list_extra: 0,
                    tag_width: 4,
                    tag_extra: 0,
                    body: CBody::GetList {
                        list_extra: 0,
                        client_id: None,
                        server_id: COctet::plain(&[8; 10]),
                        list_name: Some(COctet::plain(&[])),
                        act_sensor_time: Some(CTime::Bare { secs: 77, extra: 0 }),
                        vals_extra: 0,
                        entries: (0..17)
                            .map(|i| CEntry {
                                list_extra: 0,
                                obj_name: COctet::plain(&[1, 0, i, 8, 0, 255]),
                                status: Some(CUint::w(0x182, 3)),
                                val_time: None,
                                unit: Some(CUint::w(30, 1)),
                                scaler: Some(CInt { value: -1, width: 1, extra: 0 }),
                                value: match i % 5 {
                                    0 => CValue::Int(CInt { value: -2, width: 5, extra: 0 }),
                                    1 => CValue::Uint(CUint::w(0xffff, 2)),
                                    2 => CValue::Bool(7),
                                    3 => CValue::Bytes(COctet::plain(&[5; 30])),
                                    _ => CValue::ListTime { list_extra: 0, tag_extra: 0, time: t.clone() },
                                },
                                sig: None,
                            })
                            .collect(),
                        list_sig: None,
                        act_gateway_time: None,
                    },
                    crc_short: true,
                    crc_extra: 0,
                },
                CMsg {
                    list_extra: 0,
                    transaction_id: COctet::plain(&[]),
                    group_no: CUint::w(0, 1),
                    abort_on_error: CUint::w(255, 1),
                    body_list_extra: 0,
                    tag_width: 2,
                    tag_extra: 0,
                    body: CBody::Close { list_extra: 0, sig: None },
                    crc_short: false,
                    crc_extra: 0,
                },
            ],
        }
    }

    #[test]
    fn write_read_roundtrip() {
        let f = sample();
        let w = write(&f);
        let r = read_file(&w.bytes).expect("reader accepts writer output");
        assert_eq!(r, f.abstract_());
        assert_eq!(assemble(&events_of(&r)).unwrap(), r);
        assert_eq!(w.msgs.len(), 3);
        // every TLF span decodes with the reference TLF reader
        for s in &w.tlfs {
            let t = read_tlf(&w.bytes[s.pos..], s.pos).unwrap();
            assert_eq!(t.nbytes, s.n);
            assert_eq!(t.ty, s.ty);
        }
    }

    #[test]
    fn known_close_message_from_docs() {
        // published example message (SML close response)
        let bytes = [
            0x76, 0x5, 0xdd, 0x43, 0x44, 0x0, 0x62, 0x0, 0x62, 0x0, 0x72, 0x63, 0x2, 0x1, 0x71, 0x1, 0x63,
            0xfd, 0x56, 0x0,
        ];
        let f = read_file(&bytes).unwrap();
        assert_eq!(f.msgs.len(), 1);
        assert_eq!(f.msgs[0].transaction_id, vec![221, 67, 68, 0]);
        assert_eq!(f.msgs[0].body, RBody::Close { sig: None });
        let mut b2 = bytes;
        b2[18] ^= 1;
        assert_eq!(read_file(&b2).unwrap_err().kind, RejectKind::Crc);
        assert_eq!(fix_crcs(&mut b2), 1);
        assert_eq!(b2, bytes);
    }

    #[test]
    fn tlf_rules() {
        assert_eq!(read_tlf(&[0x01], 0).unwrap().len, 0);
        assert_eq!(read_tlf(&[0x00], 0).unwrap_err().kind, RejectKind::TlfUnderflow);
        assert_eq!(read_tlf(&[0x81, 0x0c], 0).unwrap().len, 26);
        assert_eq!(read_tlf(&[0xf1, 0x00], 0).unwrap().len, 16);
        assert_eq!(read_tlf(&[0xc2], 0).unwrap_err().kind, RejectKind::TlfReserved);
        assert_eq!(read_tlf(&[0x10], 0).unwrap_err().kind, RejectKind::TlfInvalidType);
        assert_eq!(read_tlf(&[0x81, 0x10], 0).unwrap_err().kind, RejectKind::TlfContType);
        // 9 nibbles: 1_0000_000f does not fit 32 bits
        assert_eq!(
            read_tlf(&[0x81, 0x80, 0x80, 0x80, 0x80, 0x80, 0x80, 0x80, 0x0f], 0).unwrap_err().kind,
            RejectKind::TlfOverflow
        );
        // 9 nibbles with a leading zero nibble fits
        let t = read_tlf(&[0xf0, 0x8f, 0x8f, 0x8f, 0x8f, 0x8f, 0x8f, 0x8f, 0x0f], 0).unwrap();
        assert_eq!(t.len, 0xffff_ffff);
        assert_eq!(prim_tlf(TY_OCTET, 14, 0), vec![0x0f]);
        assert_eq!(prim_tlf(TY_OCTET, 15, 0), vec![0x81, 0x01]);
        assert_eq!(prim_tlf(TY_OCTET, 0, 1), vec![0x80, 0x02]);
        assert_eq!(prim_tlf(TY_OCTET, 253, 0), vec![0x8f, 0x0f]);
        assert_eq!(prim_tlf(TY_OCTET, 254, 0), vec![0x81, 0x80, 0x01]);
        assert_eq!(list_tlf(16, 0), vec![0xf1, 0x00]);
    }
}
