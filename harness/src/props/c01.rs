//! C01 - transport round trip: decoding an encoded payload yields exactly that payload.

use crate::drive::{self, BufKind, Ev, VecK};
use crate::engine::caps::{cap_at_least, pick, CAPS};
use crate::engine::{Fail, Obs, Prop, Tier};
use crate::gen::payload::*;
use crate::props::c07::{exh_locate, exh_total, EXH_ALPHABET};
use crate::util::{hex_short, Kv};
use crate::{ensure, with_cap};
use proptest::prelude::*;
use sml_rs::transport::{encode, encode_streaming};

pub struct C01;

#[derive(Debug, Clone)]
pub enum Mode {
    Natural(SizedPayload),
    /// capacity first, then |p| = N - delta (delta >= 0)
    ExactCap { cap: u16, delta: u8, shape: Payload, seed: u64 },
}

#[derive(Debug, Clone)]
pub struct Case {
    pub mode: Mode,
    pub extra: usize,
}

#[derive(Debug, Clone)]
pub struct Input {
    pub payload: Vec<u8>,
    /// fixed capacity used for the ArrayBuf front-ends (>= |payload|)
    pub cap: usize,
    pub extra: usize,
}

fn enc_arr<K: BufKind>(p: &[u8]) -> Option<Vec<u8>> {
    crate::drive::encode_any::<K::B>(p).ok().map(|b| b.to_vec())
}

/// All decoder front-ends with buffer kind K on one encoded frame.
fn check_frontends<K: BufKind>(frame: &[u8], p: &[u8], extra: usize, with_default: bool, enc: &str) -> Result<usize, Fail> {
    let what = |fe: &str| format!("{} -> {} with {}<cap {}>", enc, fe, K::NAME, if K::CAP == usize::MAX { "inf".to_string() } else { K::CAP.to_string() });
    let a = drive::agreement::<K>(frame, extra, with_default)
        .map_err(|(fe, m)| Fail::new(format!("roundtrip-frontends-disagree:{}", fe.split('.').next().unwrap_or("")), format!("payload {}: {}: {}", hex_short(p, 48), what(&fe), m)))?;
    // exactly one result: Ok(p) when the last byte of the frame is consumed, nothing left over
    ensure!(
        a.events.len() == 1 && a.events[0].1 == Ev::Msg(p.to_vec()) && a.leftover == 0,
        "roundtrip-wrong-result",
        "payload {} ({} bytes): {}: decoding its frame {} yields {} with {} leftover bytes; expected exactly [Ok(payload)]",
        hex_short(p, 48),
        p.len(),
        what("all front-ends"),
        hex_short(frame, 64),
        drive::show_pos(&a.events),
        a.leftover
    );
    ensure!(
        a.events[0].0 == frame.len(),
        "roundtrip-wrong-position",
        "payload {}: {}: payload reported after {} of {} frame bytes",
        hex_short(p, 48),
        what("push decoder"),
        a.events[0].0,
        frame.len()
    );
    Ok(a.frontends)
}

impl Prop for C01 {
    const ID: &'static str = "C01";
    const RULE: &'static str = "payloads from G1 (token shapes with forced tails: trailing 0x1b run x zero run x alignment x literal escape; length classes 0..64, ~256, ~1024, ~4096, ~8192, ~65536, up to 70k/200k; or |p| = N - delta for a fixed capacity N) x encoders {encode::<Vec>, encode_streaming, encode::<ArrayBuf>} x decoder front-ends {push Decoder+finalize, decode, decode_streaming, SmlReader over slice/iterator/io::Read polled with next and with read} x buffers {Vec, ArrayBuf<N>=|p| or the next larger capacity, default 8 KiB when |p| <= 8192}; oracle: identity, exactly one result at the last frame byte, nothing before or after. Non-trivial: payload contains 0x1b, ends in 0x00, contains a start look-alike, or |p| >= 256. Distinct = distinct (payload, capacity, extra calls).";
    type Case = Case;
    type Input = Input;

    fn budget(tier: Tier) -> u64 {
        tier.pick(120_000, 3_000_000)
    }

    fn strategy(tier: Tier) -> BoxedStrategy<Case> {
        let big = tier.pick(70_000, 200_000);
        let mode = prop_oneof![
            3 => sized_payload(big).prop_map(Mode::Natural),
            2 => (any::<u16>(), prop_oneof![3 => Just(0u8), 2 => 1u8..4, 1 => 4u8..9], payload_small(), any::<u64>())
                .prop_map(|(cap, delta, shape, seed)| Mode::ExactCap { cap, delta, shape, seed }),
        ];
        (mode, 1usize..6).prop_map(|(mode, extra)| Case { mode, extra }).boxed()
    }

    fn lower(c: &Case) -> Input {
        match &c.mode {
            Mode::Natural(sp) => {
                let payload = sp.bytes();
                let cap = cap_at_least(payload.len()).unwrap_or(140_000);
                let payload = if payload.len() > cap { payload[..cap].to_vec() } else { payload };
                Input { payload, cap, extra: c.extra }
            }
            Mode::ExactCap { cap, delta, shape, seed } => {
                let n = CAPS[pick(*cap, CAPS.len())];
                let len = n.saturating_sub(*delta as usize);
                Input { payload: shape.bytes_with_len(len, *seed), cap: n, extra: c.extra }
            }
        }
    }

    fn eval(i: &Input, obs: &mut Obs) -> Result<(), Fail> {
        let p = &i.payload;
        // encoders
        let f_vec = crate::drive::encode_any::<Vec<u8>>(p).map_err(|_| Fail::new("encode-vec-oom", "encode::<Vec<u8>> reported OutOfMemory"))?;
        let mut it = encode_streaming(p);
        let mut f_it = Vec::with_capacity(f_vec.len());
        let cap_steps = 2 * p.len() + 24;
        let mut ended = false;
        for _ in 0..=cap_steps {
            match it.next() {
                Some(b) => f_it.push(b),
                None => {
                    ended = true;
                    break;
                }
            }
        }
        ensure!(ended, "encode-streaming-endless", "encode_streaming({}) yielded more than {} bytes", hex_short(p, 48), cap_steps);
        let fcap = cap_at_least(f_vec.len());
        let f_arr = fcap.and_then(|n| with_cap!(n, K => enc_arr::<K>(p)));
        let mut frames: Vec<(&str, &Vec<u8>)> = vec![("encode::<Vec>", &f_vec)];
        if f_it != f_vec {
            frames.push(("encode_streaming", &f_it));
        }
        if let Some(fa) = &f_arr {
            if *fa != f_vec {
                frames.push(("encode::<ArrayBuf>", fa));
            }
        } else if fcap.is_some() {
            return Err(Fail::new("encode-arraybuf-oom", format!("encode::<ArrayBuf<{}>> failed for a frame of {} bytes", fcap.unwrap(), f_vec.len())));
        }
        obs.count("distinct-encodings", frames.len() as u64);
        let mut n_fe = 0;
        for (enc, frame) in frames {
            // growable buffer (+ default 8 KiB buffer when the payload fits)
            let with_default = p.len() <= 8192 && (p.len() >= 8100 || crate::util::fnv64(p) % 4 == 0);
            n_fe += check_frontends::<VecK>(frame, p, i.extra, with_default, enc)?;
            // fixed buffer with capacity >= |p| (exactly |p| when the capacity set has it)
            n_fe += with_cap!(i.cap, K => check_frontends::<K>(frame, p, i.extra, false, enc))?;
        }
        obs.count("frontend-runs", n_fe as u64);
        obs.class(len_class(p.len()));
        obs.class(tail_class(p));
        obs.class(if i.cap == p.len() { "cap:exact" } else { "cap:larger" });
        if p.len() <= 8192 && (p.len() >= 8100 || crate::util::fnv64(p) % 4 == 0) {
            obs.class("default-buffer:used");
        }
        obs.nontrivial_if(payload_nontrivial(p));
        Ok(())
    }

    fn generator_counters() -> Vec<(String, u64)> {
        vec![("payloads-with-a-checksum-byte-steered-to-1b/1a/00/01".into(), crate::gen::payload::CRC_GROUND.load(std::sync::atomic::Ordering::Relaxed))]
    }

    fn to_kv(i: &Input) -> Kv {
        let mut kv = Kv::new();
        kv.put_b("payload", &i.payload).put_u("cap", i.cap as u64).put_u("extra", i.extra as u64);
        kv
    }

    fn from_kv(kv: &Kv) -> Result<Input, String> {
        let cap = kv.get_u("cap")? as usize;
        if !CAPS.contains(&cap) {
            return Err(format!("capacity {cap} not in dispatch set"));
        }
        let payload = kv.get_b("payload")?;
        if payload.len() > cap {
            return Err("capacity smaller than payload".into());
        }
        Ok(Input { payload, cap, extra: kv.get_u("extra")? as usize })
    }

    fn exhaustive_desc(tier: Tier) -> String {
        let (maxlen, total) = exh_total(tier);
        format!("every payload over {{00,1b,1a,01,a5}} of length 0..={} ({} payloads) through all encoders and front-ends with Vec and with ArrayBuf<|p|>", maxlen, total)
    }

    fn exhaustive(tier: Tier, shard: usize, nshards: usize, f: &mut dyn FnMut(&Input) -> bool) {
        let (maxlen, total) = exh_total(tier);
        let mut p = Vec::new();
        let mut idx = shard as u64;
        while idx < total {
            let (l, k) = exh_locate(idx, maxlen);
            nth_word(&EXH_ALPHABET, l, k, &mut p);
            if !f(&Input { payload: p.clone(), cap: l, extra: 1 }) {
                return;
            }
            idx += nshards as u64;
        }
    }
}
