//! Parser inputs shared by C04, C06, C09, C13: valid G4 encodings, G5 mutations of them
//! (with / without checksum fix-up), mutated real meter payloads and random bytes.

use super::mutate::{mutate, pmut, PMut};
use super::smlfile::{cfile, cfile_typical};
use crate::refmodel::sml::{read_events, write, CFile, Written};
use proptest::collection::vec;
use proptest::prelude::*;
use std::sync::OnceLock;

pub const CORPUS_DIR: &str = concat!(env!("CARGO_MANIFEST_DIR"), "/corpus-seed");

/// Decoded payloads of the real meter dumps in /repo/tests/libsml-testing (extracted once by
/// `check extract-corpus` and committed under corpus-seed/sml).
pub fn real_payloads() -> &'static [Vec<u8>] {
    static P: OnceLock<Vec<Vec<u8>>> = OnceLock::new();
    P.get_or_init(|| {
        let mut v = Vec::new();
        let dir = format!("{}/sml", CORPUS_DIR);
        if let Ok(rd) = std::fs::read_dir(&dir) {
            let mut names: Vec<_> = rd.filter_map(|e| e.ok()).map(|e| e.path()).filter(|p| p.extension().map(|x| x == "bin").unwrap_or(false)).collect();
            names.sort();
            for n in names {
                if let Ok(b) = std::fs::read(&n) {
                    v.push(b);
                }
            }
        }
        v
    })
}

#[derive(Debug, Clone)]
pub enum PCase {
    Valid(CFile),
    Mutated { file: CFile, muts: Vec<PMut>, fix: bool },
    Dump { idx: u16, muts: Vec<PMut>, fix: bool },
    Random(Vec<u8>),
    /// grammar-level mutation of a generated file (well-formed TLV structure, checksums recomputed)
    Tree { file: CFile, muts: Vec<super::tree::TMut> },
    /// the same on a real meter payload
    TreeDump { idx: u16, muts: Vec<super::tree::TMut> },
}

#[derive(Debug, Clone)]
pub struct PInput {
    pub bytes: Vec<u8>,
    /// how the input was made (informational; part of the replay file as a comment-like key)
    pub how: String,
}

pub fn lower(c: &PCase) -> PInput {
    match c {
        PCase::Valid(f) => PInput { bytes: write(f).bytes, how: "valid".into() },
        PCase::Mutated { file, muts, fix } => {
            let w = write(file);
            let (bytes, labels, patched) = mutate(&w, muts, *fix);
            PInput { bytes, how: format!("mutated[{}]{}", labels.join("+"), if *fix { format!(" crc-fixed:{}", patched) } else { String::new() }) }
        }
        PCase::Dump { idx, muts, fix } => {
            let all = real_payloads();
            if all.is_empty() {
                return PInput { bytes: vec![], how: "dump-missing".into() };
            }
            let b = &all[((*idx as usize) * all.len()) >> 16];
            let r = read_events(b, false);
            let w = Written { bytes: b.clone(), tlfs: r.tlfs, msgs: r.msgs };
            let (bytes, labels, patched) = mutate(&w, muts, *fix);
            PInput { bytes, how: format!("dump[{}]{}", labels.join("+"), if *fix { format!(" crc-fixed:{}", patched) } else { String::new() }) }
        }
        PCase::Random(v) => PInput { bytes: v.clone(), how: "random".into() },
        PCase::Tree { file, muts } => {
            let w = write(file);
            match super::tree::mutate_tree(&w.bytes, muts) {
                Some((bytes, labels, patched)) => PInput { bytes, how: format!("tree[{}] crc-fixed:{}", labels.join("+"), patched) },
                None => PInput { bytes: w.bytes, how: "valid".into() },
            }
        }
        PCase::TreeDump { idx, muts } => {
            let all = real_payloads();
            if all.is_empty() {
                return PInput { bytes: vec![], how: "dump-missing".into() };
            }
            let b = &all[((*idx as usize) * all.len()) >> 16];
            match super::tree::mutate_tree(b, muts) {
                Some((bytes, labels, patched)) => PInput { bytes, how: format!("treedump[{}] crc-fixed:{}", labels.join("+"), patched) },
                None => PInput { bytes: b.clone(), how: "dump[] unparsed".into() },
            }
        }
    }
}

/// Weights: (valid, mutated, dump, random)
pub fn pcase(big: bool, w: (u32, u32, u32, u32)) -> BoxedStrategy<PCase> {
    let file = if big { prop_oneof![3 => cfile(true), 1 => cfile_typical()].boxed() } else { prop_oneof![3 => cfile(false), 1 => cfile_typical()].boxed() };
    let file2 = if big { cfile(true).boxed() } else { cfile(false).boxed() };
    let file3 = prop_oneof![2 => cfile(false), 1 => cfile_typical()];
    prop_oneof![
        w.0 => file2.prop_map(PCase::Valid),
        w.1 => (file, vec(pmut(), 1..3), any::<bool>()).prop_map(|(file, muts, fix)| PCase::Mutated { file, muts, fix }),
        w.2 => (any::<u16>(), vec(pmut(), 0..3), any::<bool>()).prop_map(|(idx, muts, fix)| PCase::Dump { idx, muts, fix }),
        w.1 => (file3, vec(super::tree::tmut(), 1..3)).prop_map(|(file, muts)| PCase::Tree { file, muts }),
        w.2 => (any::<u16>(), vec(super::tree::tmut(), 1..3)).prop_map(|(idx, muts)| PCase::TreeDump { idx, muts }),
        w.3 => vec(prop_oneof![3 => any::<u8>(), 1 => Just(0x76u8), 1 => Just(0x01u8), 1 => Just(0x00u8), 1 => Just(0x72u8), 1 => Just(0x62u8)], 0..80).prop_map(PCase::Random),
    ]
    .boxed()
}

impl PInput {
    pub fn to_kv(&self) -> crate::util::Kv {
        let mut kv = crate::util::Kv::new();
        kv.put_b("bytes", &self.bytes).put("how", self.how.replace('\n', " "));
        kv
    }
    pub fn from_kv(kv: &crate::util::Kv) -> Result<PInput, String> {
        Ok(PInput { bytes: kv.get_b("bytes")?, how: kv.get_opt("how").unwrap_or("replay").to_string() })
    }
    pub fn origin_class(&self) -> String {
        let base = self.how.split('[').next().unwrap_or("").split(' ').next().unwrap_or("");
        let fixed = if self.how.contains("crc-fixed") { "+crcfix" } else { "" };
        format!("origin:{}{}", base, fixed)
    }
}
