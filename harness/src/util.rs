//! Small shared helpers: hex with run-length encoding, the `key=value` replay format,
//! a minimal JSON writer and an FNV hash (no external crates, deterministic).

use std::collections::BTreeMap;
use std::fmt::Write as _;

// ---------------------------------------------------------------------------------------
// hex with run-length encoding:  "1b1b1b1b01010101 aa*65536 1b"
// ---------------------------------------------------------------------------------------

/// Encodes bytes as hex; runs of >= 12 equal bytes become ` xx*N ` chunks so that a
/// 140 000-byte noise run stays readable (and small) in a replay file.
pub fn hex_rle(bytes: &[u8]) -> String {
    let mut out = String::with_capacity(bytes.len().min(4096) * 2 + 8);
    let mut i = 0;
    let mut need_sep = false;
    while i < bytes.len() {
        let b = bytes[i];
        let mut j = i + 1;
        while j < bytes.len() && bytes[j] == b {
            j += 1;
        }
        let run = j - i;
        if run >= 12 {
            if !out.is_empty() {
                out.push(' ');
            }
            let _ = write!(out, "{:02x}*{}", b, run);
            need_sep = true;
        } else {
            if need_sep {
                out.push(' ');
                need_sep = false;
            }
            for _ in 0..run {
                let _ = write!(out, "{:02x}", b);
            }
        }
        i = j;
    }
    if out.is_empty() {
        out.push('-');
    }
    out
}

pub fn unhex_rle(s: &str) -> Result<Vec<u8>, String> {
    let mut out = Vec::new();
    let s = s.trim();
    if s == "-" || s.is_empty() {
        return Ok(out);
    }
    for chunk in s.split_whitespace() {
        if let Some((h, n)) = chunk.split_once('*') {
            if h.len() != 2 {
                return Err(format!("bad rle chunk {chunk:?}"));
            }
            let b = u8::from_str_radix(h, 16).map_err(|e| format!("{e}"))?;
            let n: usize = n.parse().map_err(|e| format!("{e}"))?;
            out.extend(std::iter::repeat(b).take(n));
        } else {
            if chunk.len() % 2 != 0 {
                return Err(format!("odd hex chunk {chunk:?}"));
            }
            let cb = chunk.as_bytes();
            for k in (0..cb.len()).step_by(2) {
                let t = std::str::from_utf8(&cb[k..k + 2]).map_err(|e| format!("{e}"))?;
                out.push(u8::from_str_radix(t, 16).map_err(|e| format!("{e}"))?);
            }
        }
    }
    Ok(out)
}

/// Short form for messages/samples: at most `max` bytes shown, rest summarised.
pub fn hex_short(bytes: &[u8], max: usize) -> String {
    if bytes.len() <= max {
        hex_rle(bytes)
    } else {
        let h = hex_rle(bytes);
        if h.len() <= 2 * max + 16 {
            h
        } else {
            format!("{}.. ({} bytes)", &h[..2 * max], bytes.len())
        }
    }
}

/// Clips a long diagnostic string (Debug output of whole files) to `max` characters.
pub fn clip(s: String, max: usize) -> String {
    if s.len() <= max {
        s
    } else {
        let mut cut = max;
        while !s.is_char_boundary(cut) {
            cut -= 1;
        }
        format!("{}... ({} chars)", &s[..cut], s.len())
    }
}

// ---------------------------------------------------------------------------------------
// key=value replay format (ordered, keys may repeat)
// ---------------------------------------------------------------------------------------

#[derive(Debug, Clone, Default, PartialEq)]
pub struct Kv(pub Vec<(String, String)>);

impl Kv {
    pub fn new() -> Self {
        Kv(Vec::new())
    }
    pub fn put(&mut self, k: &str, v: impl Into<String>) -> &mut Self {
        let v: String = v.into();
        debug_assert!(!v.contains('\n'));
        self.0.push((k.to_string(), v));
        self
    }
    pub fn put_u(&mut self, k: &str, v: u64) -> &mut Self {
        self.put(k, v.to_string())
    }
    pub fn put_b(&mut self, k: &str, v: &[u8]) -> &mut Self {
        self.put(k, hex_rle(v))
    }
    pub fn get(&self, k: &str) -> Result<&str, String> {
        self.0
            .iter()
            .find(|(kk, _)| kk == k)
            .map(|(_, v)| v.as_str())
            .ok_or_else(|| format!("missing key {k}"))
    }
    pub fn get_opt(&self, k: &str) -> Option<&str> {
        self.0.iter().find(|(kk, _)| kk == k).map(|(_, v)| v.as_str())
    }
    pub fn get_u(&self, k: &str) -> Result<u64, String> {
        self.get(k)?.parse::<u64>().map_err(|e| format!("{k}: {e}"))
    }
    pub fn get_b(&self, k: &str) -> Result<Vec<u8>, String> {
        unhex_rle(self.get(k)?)
    }
    pub fn all<'a>(&'a self, k: &'a str) -> impl Iterator<Item = &'a str> + 'a {
        self.0.iter().filter(move |(kk, _)| kk == k).map(|(_, v)| v.as_str())
    }
    pub fn to_text(&self) -> String {
        let mut s = String::new();
        for (k, v) in &self.0 {
            s.push_str(k);
            s.push('=');
            s.push_str(v);
            s.push('\n');
        }
        s
    }
    pub fn from_text(t: &str) -> Result<Kv, String> {
        let mut kv = Kv::new();
        for line in t.lines() {
            let line = line.trim_end();
            if line.is_empty() || line.starts_with('#') {
                continue;
            }
            let (k, v) = line.split_once('=').ok_or_else(|| format!("bad line {line:?}"))?;
            kv.0.push((k.to_string(), v.to_string()));
        }
        Ok(kv)
    }
}

// ---------------------------------------------------------------------------------------
// FNV-1a 64
// ---------------------------------------------------------------------------------------

pub fn fnv64(data: &[u8]) -> u64 {
    let mut h: u64 = 0xcbf29ce484222325;
    for b in data {
        h ^= *b as u64;
        h = h.wrapping_mul(0x100000001b3);
    }
    h
}

/// splitmix64 - used only to derive per-shard seeds from (VERIF_SEED, id, profile, shard).
pub fn splitmix(mut x: u64) -> u64 {
    x = x.wrapping_add(0x9E3779B97F4A7C15);
    let mut z = x;
    z = (z ^ (z >> 30)).wrapping_mul(0xBF58476D1CE4E5B9);
    z = (z ^ (z >> 27)).wrapping_mul(0x94D049BB133111EB);
    z ^ (z >> 31)
}

// ---------------------------------------------------------------------------------------
// minimal JSON value + writer
// ---------------------------------------------------------------------------------------

#[derive(Debug, Clone)]
pub enum J {
    Null,
    Bool(bool),
    Int(i128),
    Num(f64),
    Str(String),
    Arr(Vec<J>),
    Obj(Vec<(String, J)>),
}

impl J {
    pub fn obj() -> J {
        J::Obj(Vec::new())
    }
    pub fn set(&mut self, k: &str, v: J) -> &mut Self {
        if let J::Obj(o) = self {
            if let Some(e) = o.iter_mut().find(|(kk, _)| kk == k) {
                e.1 = v;
            } else {
                o.push((k.to_string(), v));
            }
        }
        self
    }
    pub fn s(v: impl Into<String>) -> J {
        J::Str(v.into())
    }
    pub fn u(v: u64) -> J {
        J::Int(v as i128)
    }
    pub fn from_counts(m: &BTreeMap<String, u64>) -> J {
        J::Obj(m.iter().map(|(k, v)| (k.clone(), J::u(*v))).collect())
    }
    pub fn write(&self, out: &mut String) {
        match self {
            J::Null => out.push_str("null"),
            J::Bool(b) => out.push_str(if *b { "true" } else { "false" }),
            J::Int(i) => {
                let _ = write!(out, "{}", i);
            }
            J::Num(f) => {
                if f.is_finite() {
                    let _ = write!(out, "{:.3}", f);
                } else {
                    out.push_str("0");
                }
            }
            J::Str(s) => {
                out.push('"');
                for c in s.chars() {
                    match c {
                        '"' => out.push_str("\\\""),
                        '\\' => out.push_str("\\\\"),
                        '\n' => out.push_str("\\n"),
                        '\r' => out.push_str("\\r"),
                        '\t' => out.push_str("\\t"),
                        c if (c as u32) < 0x20 => {
                            let _ = write!(out, "\\u{:04x}", c as u32);
                        }
                        c => out.push(c),
                    }
                }
                out.push('"');
            }
            J::Arr(a) => {
                out.push('[');
                for (i, v) in a.iter().enumerate() {
                    if i > 0 {
                        out.push(',');
                    }
                    v.write(out);
                }
                out.push(']');
            }
            J::Obj(o) => {
                out.push('{');
                for (i, (k, v)) in o.iter().enumerate() {
                    if i > 0 {
                        out.push(',');
                    }
                    J::Str(k.clone()).write(out);
                    out.push(':');
                    v.write(out);
                }
                out.push('}');
            }
        }
    }
    pub fn to_string(&self) -> String {
        let mut s = String::new();
        self.write(&mut s);
        s
    }
}

#[cfg(test)]
mod tests {
    use super::*;
    #[test]
    fn hex_roundtrip() {
        let mut v = vec![0x1b; 4];
        v.extend([1, 1, 1, 1]);
        v.extend(std::iter::repeat(0xaa).take(70000));
        v.push(0x1b);
        v.extend(std::iter::repeat(0).take(13));
        let h = hex_rle(&v);
        assert!(h.len() < 100, "{h}");
        assert_eq!(unhex_rle(&h).unwrap(), v);
        assert_eq!(unhex_rle(&hex_rle(&[])).unwrap(), Vec::<u8>::new());
        for n in 0..40 {
            let v: Vec<u8> = (0..n).map(|i| if i % 17 < 13 { 7 } else { i as u8 }).collect();
            assert_eq!(unhex_rle(&hex_rle(&v)).unwrap(), v);
        }
    }
    #[test]
    fn kv_roundtrip() {
        let mut kv = Kv::new();
        kv.put_u("n", 5).put_b("s", &[1, 2, 3]).put("op", "push").put("op", "reset");
        let t = kv.to_text();
        let k2 = Kv::from_text(&t).unwrap();
        assert_eq!(kv, k2);
        assert_eq!(k2.all("op").collect::<Vec<_>>(), vec!["push", "reset"]);
    }
}
